package main

import (
	"os"

	"verifsim/internal/checks"
)

func main() {
	os.Exit(checks.Main(os.Args[1:]))
}
