module verifsim

go 1.23
