package checks

import (
	"bytes"
	"encoding/json"
	"fmt"
	"os"
	"os/exec"
	"path/filepath"
	"regexp"
	"sort"
	"strings"
	"time"

	"verifsim/internal/sim"
)

// C19 — matcher objects against a stateless reference model over seeded
// operation histories. The harness is a rapid test (matchsim/) compiled
// against a scratch copy of /repo's working tree; rapid is the only source of
// choices, so failures shrink and their .fail files replay exactly.

type C19Case struct {
	FailFile string `json:"rapid_fail_file"`
	Message  string `json:"message"`
	Seed     uint64 `json:"rapid_seed"`
}

const rapidSum = "pgregory.net/rapid v1.3.0 h1:vBvO0VSqti75J1jjYqpgPNBLKMd1+gxa9fYo7vk/Exc=\npgregory.net/rapid v1.3.0/go.mod h1:dPlE4OBBxgXPqkP79flB6sJL1dx5azpI7HQ9MY9Z7uk=\n"

var reC19Viol = regexp.MustCompile(`C19-VIOLATION (\{.*\})`)

func buildMatchsim(cfg Config, env *sim.Env) (string, error) {
	dir := filepath.Join(env.Scratch, "matchsim")
	os.MkdirAll(dir, 0o755)
	src := filepath.Join(cfg.Verif, "matchsim")
	gm, err := os.ReadFile(filepath.Join(src, "go.mod.tmpl"))
	if err != nil {
		return "", err
	}
	gm = bytes.ReplaceAll(gm, []byte("REPO_COPY"), []byte(env.RepoCopy()))
	os.WriteFile(filepath.Join(dir, "go.mod"), gm, 0o644)
	tb, err := os.ReadFile(filepath.Join(src, "match_test.go.tmpl"))
	if err != nil {
		return "", err
	}
	os.WriteFile(filepath.Join(dir, "match_test.go"), tb, 0o644)
	sum, _ := os.ReadFile(filepath.Join(env.RepoCopy(), "go.sum"))
	os.WriteFile(filepath.Join(dir, "go.sum"), append(sum, []byte(rapidSum)...), 0o644)
	bin := filepath.Join(dir, "matchsim.test")
	cmd := exec.Command("go", "test", "-c", "-o", bin, ".")
	cmd.Dir = dir
	cmd.Env = append(sim.GoEnv(), "GOFLAGS=-mod=mod")
	out, err := cmd.CombinedOutput()
	if err != nil {
		return "", fmt.Errorf("building the matchsim harness against the working tree: %v\n%s", err, out)
	}
	return bin, nil
}

type c19proc struct {
	seed  uint64
	out   []byte
	err   error
	stats map[string]any
	dir   string
}

func runC19(cfg Config, args []string) int {
	start := time.Now()
	rep := &Report{Property: "C19", Level: "exploration", Cfg: cfg, Stats: NewStats(), Start: start, KnownHits: map[string]int{}}
	env, err := sim.Prepare(cfg.Repo)
	defer env.Cleanup()
	if err != nil {
		rep.InfraErr = err
		return Finish(rep)
	}
	if len(args) >= 2 && args[0] == "replay" {
		if rf, err := LoadReplay(args[1]); err == nil && (rf.Invariant == "C19/skip-decision" || rf.Invariant == "C19/valid-patterns-accepted") {
			return ReplayCase("C19", args[1], func(c SkipCase) CaseResult { return execSkip(env, c) })
		}
	}
	bin, err := buildMatchsim(cfg, env)
	if err != nil {
		rep.InfraErr = err
		return Finish(rep)
	}
	if len(args) >= 2 && args[0] == "replay" {
		rf, err := LoadReplay(args[1])
		if err != nil {
			fmt.Println("INFRASTRUCTURE:", err)
			return 2
		}
		var c C19Case
		json.Unmarshal(rf.Case, &c)
		ff := filepath.Join(env.Scratch, "replay.fail")
		os.WriteFile(ff, []byte(c.FailFile), 0o644)
		cmd := exec.Command(bin, "-test.run", "^TestMatchers$", "-rapid.failfile="+ff, "-rapid.nofailfile")
		cmd.Dir = filepath.Dir(bin)
		out, err := cmd.CombinedOutput()
		if err != nil && reC19Viol.Match(out) {
			fmt.Printf("VIOLATION property=C19 replay=%s\n  %s\n", args[1], reC19Viol.FindSubmatch(out)[1])
			return 1
		}
		if err != nil {
			fmt.Printf("INFRASTRUCTURE: replay run failed without a C19-VIOLATION line:\n%s\n", clip(out, 2000))
			return 2
		}
		fmt.Printf("NOT-REPRODUCED property=C19 replay=%s\n", args[1])
		return 0
	}
	known, err := LoadKnown(cfg.Verif)
	if err != nil {
		rep.InfraErr = err
		return Finish(rep)
	}
	procs := sim.Workers()
	perProc := cfg.N(50000, 1500000)
	results, _ := sim.ParMap(procs, procs, nil, func(j int) *c19proc {
		p := &c19proc{seed: uint64(cfg.Seed)*1000003 + uint64(j) + 1}
		p.dir = filepath.Join(env.Scratch, fmt.Sprintf("ms%d", j))
		os.MkdirAll(p.dir, 0o755)
		statsFile := filepath.Join(p.dir, "stats.json")
		cmd := exec.Command(bin, "-test.run", "^TestMatchers$", "-test.timeout", "6h", fmt.Sprintf("-rapid.checks=%d", perProc), fmt.Sprintf("-rapid.seed=%d", p.seed))
		cmd.Dir = p.dir
		cmd.Env = append(os.Environ(), "MATCHSIM_STATS="+statsFile, "GOMAXPROCS=2")
		p.out, p.err = cmd.CombinedOutput()
		if b, e := os.ReadFile(statsFile); e == nil {
			json.Unmarshal(b, &p.stats)
		}
		return p
	})
	keys := map[string]bool{}
	for _, p := range results {
		if p.stats != nil {
			if cs, ok := p.stats["counters"].(map[string]any); ok {
				for k, v := range cs {
					if f, ok := v.(float64); ok {
						rep.Stats.Add("n:"+k, int(f))
					}
				}
			}
			if ks, ok := p.stats["distinct_keys"].([]any); ok {
				for _, k := range ks {
					keys[fmt.Sprint(k)] = true
				}
			}
			if ss, ok := p.stats["samples"].([]any); ok && len(rep.Stats.Samples) < 4 {
				for _, s := range ss {
					if len(rep.Stats.Samples) < 4 {
						rep.Stats.Samples = append(rep.Stats.Samples, s)
					}
				}
			}
		}
	}
	for k := range keys {
		rep.Stats.Seen("nontrivial", k)
	}
	rep.Stats.Counters["evaluations"] = rep.Stats.Counters["n:sequences"]
	rep.Rule = "rapid-generated histories of up to 30 operations on a pool of up to 4 live PatternMatchers (construct with a case rule, query under either rule, share them between two by-value Options copies whose ExactCase is flipped, ShouldSkip on both), plus CompareFieldName, IdentMatcher, NameMatcher, FieldConverter and LiteralSetter queries; " +
		"patterns: dotted identifier paths and /regexp/ built from literals, classes, negated classes, Unicode properties, anchors, word boundaries, alternation, groups, flag groups, quantifiers, hex and \\Q..\\E escapes, a few invalid ones; paths over mixed case, dots, digits and letters with non-trivial folding. " +
		"Every answer must equal the stdlib-backed stateless model (==, strings.EqualFold, regexp with (?i:...)). distinct_nontrivial counts distinct (operation, pattern feature set, case rule, expected answer, rule-switched-just-before) tuples."
	rep.Assumptions = []string{"the reference semantics are ==, strings.EqualFold and Go's regexp with (?i:expr); a pattern is a regexp iff it starts and ends with '/' and has at least two characters",
		"sampled histories only: the exhaustive small-scope enumeration mentioned in the property's rationale is a different technique and is not attempted"}
	rep.Extra = map[string]any{"components_real": []string{"pkg/option compiled from /repo's working tree"}, "components_simulated": []string{"none: the callers of the matcher API are rapid-generated operation sequences"},
		"processes": procs, "rapid_checks_per_process": perProc, "simulated_time": "not applicable", "fault_kinds_fired": map[string]int{}}
	// verdict
	n := 0
	sort.SliceStable(results, func(a, b int) bool { return results[a].seed < results[b].seed })
	for _, p := range results {
		if p.err == nil {
			continue
		}
		m := reC19Viol.FindAllSubmatch(p.out, -1)
		if m == nil {
			rep.InfraErr = fmt.Errorf("matchsim process (rapid seed %d) failed without a C19-VIOLATION line: %v\n%s", p.seed, p.err, clip(p.out, 3000))
			return Finish(rep)
		}
		last := m[len(m)-1][1]
		var mm map[string]any
		json.Unmarshal(last, &mm)
		v := &Violation{Property: "C19", Invariant: fmt.Sprint(mm["invariant"]), Sig: map[string]string{}, Summary: string(last)}
		for _, k := range []string{"op", "pattern_kind", "exact_case", "case_rule_switched_before_this_query", "got", "want"} {
			if x, ok := mm[k]; ok {
				v.Sig[k] = fmt.Sprint(x)
			}
		}
		if f := known.Match(v); f != nil {
			rep.KnownHits[f.What]++
			continue
		}
		if n >= 3 {
			continue
		}
		// rapid has already shrunk the history; pick up its .fail file
		var ff []byte
		filepath.WalkDir(p.dir, func(path string, d os.DirEntry, err error) error {
			if err == nil && strings.HasSuffix(path, ".fail") {
				ff, _ = os.ReadFile(path)
			}
			return nil
		})
		c := C19Case{FailFile: string(ff), Message: string(last), Seed: p.seed}
		path, err := WriteReplay(cfg, v, c, n)
		if err != nil {
			rep.InfraErr = err
			return Finish(rep)
		}
		rep.Violations = append(rep.Violations, v)
		rep.Replays = append(rep.Replays, path)
		n++
	}
	if len(rep.Violations) == 0 && rep.Stats.Counters["n:case-rule-switches-on-live-matcher"] == 0 {
		rep.InfraErr = fmt.Errorf("no case-rule switch on a live matcher was ever exercised")
	}
	if len(rep.Violations) > 0 || rep.InfraErr != nil {
		return Finish(rep)
	}
	// ---- second half: the same model observed in the generated code (skipsim)
	b := &Batch[SkipCase]{Property: "C19", Level: "exploration", Cfg: cfg, Env: env, N: cfg.N(192, 3000),
		Gen:      func(i int) SkipCase { return genSkipCase(cfg, i) },
		Exec:     func(c SkipCase) CaseResult { return execSkip(env, c) },
		Shrink:   shrinkSkip,
		Required: []string{"n:methods_with_a_skip"},
	}
	rep2 := RunBatch(b, start)
	worlds := rep2.Stats.Counters["evaluations"]
	delete(rep2.Stats.Counters, "evaluations")
	rep2.Stats.Counters["n:skipsim_worlds"] = worlds
	samples := rep.Stats.Samples
	rep.Stats.Merge(rep2.Stats)
	rep.Stats.Samples = append(samples, rep2.Stats.Samples...)
	rep.Stats.Counters["evaluations"] += rep2.Stats.Counters["n:methods_checked"]
	rep.Violations, rep.Replays, rep.InfraErr = rep2.Violations, rep2.Replays, rep2.InfraErr
	for k, v := range rep2.KnownHits {
		rep.KnownHits[k] += v
	}
	rep.Rule += " SECOND HALF (skipsim): generated setup files (5-10 destination fields incl. non-ASCII identifiers with non-trivial folding, a nested struct) with 2-6 methods, each with 1-4 :skip lines (plain paths, regexps, unscoped and scoped inline flags) and :case / :case:off before, between and after them; " +
		"convergen runs for real and the '// skip:' lines of every generated function must be exactly those the reference traversal predicts under the method's final case rule."
	rep.Extra["components_real"] = []string{"pkg/option compiled from /repo's working tree (matchsim)", "the convergen binary built from the working tree, go list, goimports (skipsim)"}
	return Finish(rep)
}
