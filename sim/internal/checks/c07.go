package checks

import (
	"context"
	"encoding/json"
	"fmt"
	"go/ast"
	"go/parser"
	"go/token"
	"os"
	"os/exec"
	"path/filepath"
	"regexp"
	"sort"
	"strconv"
	"strings"
	"time"

	"verifsim/internal/gensim"
	"verifsim/internal/sim"
)

// C07 and C10 share the gensim engine: convergen (plain binary, built from the
// working tree) runs on a world whose user functions are simulator-owned
// stubs; the world plus the generated file plus a generated driver is compiled
// with the real compiler and run; the driver records, the oracles are here.

type GenCase struct {
	World *sim.WorldSpec `json:"world"`
	Meta  *gensim.Meta   `json:"meta"`
	// Only restricts the oracle to one generated function (set by the shrinker).
	Only string `json:"only,omitempty"`
}

type rtCall struct {
	Site    string   `json:"site"`
	Occ     int      `json:"occ"`
	Capable bool     `json:"capable"`
	Failed  bool     `json:"failed"`
	Kind    string   `json:"kind"`
	DstPtr  string   `json:"dst_ptr"`
	SrcPtr  string   `json:"src_ptr"`
	Dst     string   `json:"dst"`
	Src     string   `json:"src"`
	Extra   []string `json:"extra"`
}

type rtResult struct {
	Failing []string `json:"failing"`
	Trace   []rtCall `json:"trace"`
	Err     string   `json:"err"`
	Panic   string   `json:"panic"`
	DstPtr  string   `json:"dst_ptr"`
	Dst     string   `json:"dst"`
	DstNil  bool     `json:"dst_nil"`
	SrcPtr  string   `json:"src_ptr"`
	Src0    string   `json:"src_before"`
	Src1    string   `json:"src_after"`
	Start   string   `json:"dst_start"`
	Extra   []string `json:"extra"`
}

type rtFuncReport struct {
	Func    string     `json:"func"`
	Set     int        `json:"set"`
	Results []rtResult `json:"results"`
	Capped  bool       `json:"capped"`
}

func siteSeq(t []rtCall) string {
	var s []string
	for _, c := range t {
		s = append(s, fmt.Sprintf("%s#%d", c.Site, c.Occ))
	}
	return strings.Join(s, " ")
}

func sitePath(site string) string {
	switch {
	case site == "cW" || strings.HasPrefix(site, "Inner."):
		return "nested-depth-2"
	case site == "cNX" || strings.HasPrefix(site, "Nest."):
		return "nested"
	case site == "cE1":
		return "embedded"
	case strings.HasPrefix(strings.TrimPrefix(site, "hooks."), "Pre"), strings.HasPrefix(strings.TrimPrefix(site, "hooks."), "Post"):
		return "hook"
	case strings.HasPrefix(site, "Extra."):
		return "additional-arg-getter"
	case site == "SubN":
		return "generated-converter"
	}
	return "top-level"
}

func methodShape(m *gensim.MethodMeta) string {
	s := m.Style
	if m.DstPtr {
		s += ",dst:ptr"
	} else {
		s += ",dst:val"
	}
	if m.SrcPtr {
		s += ",src:ptr"
	} else {
		s += ",src:val"
	}
	if m.Recv != "" {
		s += ",recv"
	}
	if m.RetErr {
		s += ",err"
	}
	s += fmt.Sprintf(",args:%d", len(m.Extras))
	if m.Same {
		s += ",same-type"
	}
	return s
}

func hookShape(h *gensim.HookMeta) string {
	if h == nil {
		return "-"
	}
	s := "dst:val"
	if h.DstPtr {
		s = "dst:ptr"
	}
	if h.SrcPtr {
		s += ",src:ptr"
	} else {
		s += ",src:val"
	}
	if h.RetErr {
		s += ",err"
	}
	if h.Extras {
		s += ",extras"
	}
	if h.Imported {
		s += ",imported"
	}
	return s
}

// oracleC07 checks one function report against C07 (a)-(e).
func oracleC07(m *gensim.MethodMeta, fr *rtFuncReport, st *Stats) []*Violation {
	var vs []*Violation
	if len(fr.Results) == 0 {
		return nil
	}
	base := fr.Results[0]
	t0 := siteSeq(base.Trace)
	mk := func(inv string, sig map[string]string, sum string, r *rtResult) *Violation {
		sig["shape"] = methodShape(m)
		b, _ := json.Marshal(map[string]any{"function": m.Name, "notations": m.Notes, "operand_set": fr.Set, "failing": r.Failing, "trace": siteSeq(r.Trace), "fault_free_trace": t0, "returned": r.Err, "panic": r.Panic})
		return &Violation{Property: "C07", Invariant: inv, Sig: sig, Summary: sum, Detail: string(b)}
	}
	if !m.RetErr {
		for _, c := range base.Trace {
			if c.Capable {
				vs = append(vs, mk("C07/wired-into-no-error-function", map[string]string{"site_kind": c.Kind, "path": sitePath(c.Site), "how": "called-at-run-time"},
					fmt.Sprintf("%s has no error result but calls the error-capable %s", m.Name, c.Site), &base))
				return vs
			}
		}
		return vs
	}
	capableInBase := 0
	for _, c := range base.Trace {
		if c.Capable {
			capableInBase++
		}
	}
	st.Seen("k-sites", fmt.Sprint(capableInBase))
	for ri := range fr.Results {
		r := &fr.Results[ri]
		st.Inc("n:plans_executed")
		if len(r.Failing) > 0 {
			st.Seen("nontrivial", methodShape(m)+"|"+strings.Join(m.Notes, ";")+"|"+strconv.Itoa(fr.Set)+"|"+strings.Join(r.Failing, ","))
		}
		if r.Panic != "" {
			vs = append(vs, mk("C07/no-panic", map[string]string{"plan": fmt.Sprint(len(r.Failing))}, fmt.Sprintf("%s panicked under plan %v: %s", m.Name, r.Failing, r.Panic), r))
			return vs
		}
		first := -1
		for i, c := range r.Trace {
			if c.Failed {
				first = i
				break
			}
		}
		if first < 0 {
			if r.Err != "nil" {
				vs = append(vs, mk("C07/nil-when-none-fails", map[string]string{"got": errClass(r.Err)}, fmt.Sprintf("%s returned %s although no call failed", m.Name, r.Err), r))
				return vs
			}
			if siteSeq(r.Trace) != t0 {
				vs = append(vs, mk("C07/trace-prefix", map[string]string{"what": "fault-free-trace-differs"}, fmt.Sprintf("%s: trace without a failing call differs from the baseline", m.Name), r))
				return vs
			}
			continue
		}
		fc := r.Trace[first]
		st.Inc("fired:" + fc.Kind + "-returns-error")
		st.Seen("fail-positions", fmt.Sprintf("%s|%s|%d-of-%d", fc.Kind, sitePath(fc.Site), first, len(base.Trace)))
		want := fmt.Sprintf("inj:%s#%d", fc.Site, fc.Occ)
		sig := map[string]string{"site_kind": fc.Kind, "path": sitePath(fc.Site)}
		if r.Err != want {
			sig["got"] = errClass(r.Err)
			vs = append(vs, mk("C07/returns-that-error", sig, fmt.Sprintf("%s: %s (%s, %s path) failed but the function returned %s", m.Name, fc.Site, fc.Kind, sitePath(fc.Site), r.Err), r))
			return vs
		}
		if len(r.Trace) != first+1 {
			nx := r.Trace[first+1]
			sig["later_kind"] = nx.Kind
			vs = append(vs, mk("C07/no-later-call", sig, fmt.Sprintf("%s: after %s failed, %s (%s) was still called", m.Name, fc.Site, nx.Site, nx.Kind), r))
			return vs
		}
		pre := strings.Join(strings.Fields(t0)[:min(first+1, len(strings.Fields(t0)))], " ")
		if siteSeq(r.Trace) != pre {
			vs = append(vs, mk("C07/trace-prefix", map[string]string{"what": "prefix-differs"}, fmt.Sprintf("%s: calls before the failure differ from the fault-free run", m.Name), r))
			return vs
		}
	}
	return vs
}

func errClass(e string) string {
	switch {
	case e == "nil":
		return "nil"
	case strings.HasPrefix(e, "inj:"):
		return "another-injected-error"
	case strings.HasPrefix(e, "wrapped:"):
		return "wrapped-or-copied"
	}
	return "other-error"
}

func flatten(prefix string, v any, out map[string]string) {
	switch x := v.(type) {
	case map[string]any:
		for k, e := range x {
			p := k
			if prefix != "" {
				p = prefix + "." + k
			}
			flatten(p, e, out)
		}
	default:
		b, _ := json.Marshal(x)
		out[prefix] = string(b)
	}
}

func flatJSON(s string) map[string]string {
	var v any
	out := map[string]string{}
	if json.Unmarshal([]byte(s), &v) != nil {
		out[""] = s
		return out
	}
	flatten("", v, out)
	return out
}

// leafAt returns the value at path, or "absent" when a parent is null / missing.
func leafAt(m map[string]string, path string) string {
	if v, ok := m[path]; ok {
		return v
	}
	// a prefix that is a null leaf
	parts := strings.Split(path, ".")
	for i := len(parts) - 1; i > 0; i-- {
		if v, ok := m[strings.Join(parts[:i], ".")]; ok {
			return "under:" + v
		}
	}
	// path is an inner node here
	for k := range m {
		if strings.HasPrefix(k, path+".") {
			return "object"
		}
	}
	return "absent"
}

func sentinelOf(sample string) []string {
	return []string{`"SENTINEL"`, `-77`, `77`, `true`, `-7.5`}
}

// oracleC10 checks the fault-free history of one function.
func oracleC10(m *gensim.MethodMeta, fr *rtFuncReport, twin *rtFuncReport, st *Stats) []*Violation {
	var vs []*Violation
	if len(fr.Results) == 0 || (m.Pre == nil && m.Post == nil) {
		return nil
	}
	r := &fr.Results[0]
	mk := func(inv string, sig map[string]string, sum string) *Violation {
		sig["shape"] = methodShape(m)
		b, _ := json.Marshal(map[string]any{"function": m.Name, "notations": m.Notes, "operand_set": fr.Set, "trace": siteSeq(r.Trace), "pre": m.Pre, "post": m.Post, "dst_start": r.Start, "dst_final": r.Dst})
		return &Violation{Property: "C10", Invariant: inv, Sig: sig, Summary: sum, Detail: string(b)}
	}
	if r.Panic != "" {
		return []*Violation{mk("C10/no-panic", map[string]string{}, fmt.Sprintf("%s panicked in the fault-free run: %s", m.Name, r.Panic))}
	}
	st.Inc("n:hook_histories_checked")
	st.Seen("nontrivial", methodShape(m)+"|pre:"+hookShape(m.Pre)+"|post:"+hookShape(m.Post)+"|set"+strconv.Itoa(fr.Set))
	st.Seen("hook-shapes", methodShape(m)+"|pre:"+hookShape(m.Pre)+"|post:"+hookShape(m.Post))
	check := func(h *gensim.HookMeta, which string) {
		if h == nil {
			return
		}
		var idx []int
		for i, c := range r.Trace {
			if c.Site == h.Site {
				idx = append(idx, i)
			}
		}
		sig := map[string]string{"hook": which, "hook_shape": hookShape(h)}
		if len(idx) != 1 {
			sig["count"] = fmt.Sprint(len(idx))
			vs = append(vs, mk("C10/exactly-once", sig, fmt.Sprintf("%s: %s hook %s ran %d times", m.Name, which, h.Name, len(idx))))
			return
		}
		i := idx[0]
		c := r.Trace[i]
		if which == "pre" && i != 0 {
			vs = append(vs, mk("C10/order", sig, fmt.Sprintf("%s: preprocess %s ran after %s", m.Name, h.Name, r.Trace[0].Site)))
			return
		}
		if which == "post" && i != len(r.Trace)-1 {
			vs = append(vs, mk("C10/order", sig, fmt.Sprintf("%s: postprocess %s ran before %s", m.Name, h.Name, r.Trace[len(r.Trace)-1].Site)))
			return
		}
		// operands
		if which == "pre" && c.Dst != r.Start {
			vs = append(vs, mk("C10/pre-sees-entry-destination", sig, fmt.Sprintf("%s: preprocess saw a destination that is not the destination as on entry (something was assigned before it, or it is another object)", m.Name)))
			return
		}
		if which == "post" && c.Dst != r.Dst {
			vs = append(vs, mk("C10/post-sees-final-destination", sig, fmt.Sprintf("%s: postprocess saw a destination that differs from the value finally returned", m.Name)))
			return
		}
		ownPtrKnown := m.Style == "arg" || m.DstPtr
		if h.DstPtr && ownPtrKnown && c.DstPtr != r.DstPtr {
			vs = append(vs, mk("C10/own-destination", sig, fmt.Sprintf("%s: the %s hook received a pointer that is not the function's own destination", m.Name, which)))
			return
		}
		// (operand set 2 passes one object as destination and source: what the
		// postprocess hook sees as its source is then the copied-onto object)
		if c.Src != r.Src0 && !(fr.Set == 2 && which == "post") {
			vs = append(vs, mk("C10/own-source", sig, fmt.Sprintf("%s: the %s hook saw a source that differs from the one passed", m.Name, which)))
			return
		}
		if h.SrcPtr && m.SrcPtr && c.SrcPtr != r.SrcPtr {
			vs = append(vs, mk("C10/own-source", sig, fmt.Sprintf("%s: the %s hook received a source pointer that is not the caller's", m.Name, which)))
			return
		}
		if h.Extras {
			if strings.Join(c.Extra, "|") != strings.Join(r.Extra, "|") {
				vs = append(vs, mk("C10/additional-arguments", sig, fmt.Sprintf("%s: the %s hook received additional arguments %v, passed were %v", m.Name, which, c.Extra, r.Extra)))
				return
			}
		} else if len(c.Extra) != 0 {
			vs = append(vs, mk("C10/additional-arguments", sig, fmt.Sprintf("%s: the %s hook declares no additional parameters but received %v", m.Name, which, c.Extra)))
			return
		}
	}
	check(m.Pre, "pre")
	if len(vs) == 0 {
		check(m.Post, "post")
	}
	// sentinel differential against the hook-less twin: "allocate / take the
	// caller's object, let the by-pointer preprocess hook write sentinels into
	// every field, copy" must end in exactly the destination that the same copy
	// produces on an object the driver filled with sentinels itself.
	if len(vs) == 0 && m.Pre != nil && m.Pre.DstPtr && twin != nil && len(twin.Results) > 0 && twin.Results[0].Panic == "" && twin.Results[0].Err == "nil" && r.Err == "nil" {
		st.Inc("n:sentinel_differentials")
		if r.Dst != twin.Results[0].Dst {
			R, T := flatJSON(r.Dst), flatJSON(twin.Results[0].Dst)
			paths := map[string]bool{}
			for k := range R {
				paths[k] = true
			}
			for k := range T {
				paths[k] = true
			}
			var ps []string
			for k := range paths {
				ps = append(ps, k)
			}
			sort.Strings(ps)
			leaf, rv, tv := "?", "", ""
			for _, p := range ps {
				if leafAt(R, p) != leafAt(T, p) {
					leaf, rv, tv = p, leafAt(R, p), leafAt(T, p)
					break
				}
			}
			what := "the hook's write was not overwritten by the copy"
			for _, sv := range sentinelOf(tv) {
				if tv == sv {
					what = "what the by-pointer preprocess hook wrote did not survive in a field no copy assigns (the hook did not get the function's own destination, or the destination was re-created after it)"
				}
			}
			vs = append(vs, mk("C10/pre-then-copy", map[string]string{"hook": "pre", "leaf": leaf, "hook_shape": hookShape(m.Pre)},
				fmt.Sprintf("%s: field %s ends as %s, but copying onto a sentinel-filled destination gives %s: %s", m.Name, leaf, rv, tv, what)))
		}
	}
	return vs
}

var reDiag = regexp.MustCompile(`(?m)^(?:\./)?conv/([\w.]+\.go):(\d+):(\d+): (.*)$`)

var capableNames = []string{"ErrHookShared", "cT64", "cV", "cA", "cD", "CD", "cLE", "cLI", "G", "cNX", "cE1", "cC", "cR", "cP", "cW", "GetY", "GetB", "GetV", "Get", "SubN"}

// attributeDiagnostics maps compiler diagnostics in the generated file onto
// C07 / C10 narrowly; everything else is a note.
func attributeDiagnostics(root string, meta *gensim.Meta, out string, st *Stats) []*Violation {
	genPath := filepath.Join(root, "mod/conv/setup.gen.go")
	src, err := os.ReadFile(genPath)
	if err != nil {
		return nil
	}
	fset := token.NewFileSet()
	f, err := parser.ParseFile(fset, genPath, src, 0)
	if err != nil {
		st.Note("generated file does not parse: %v", err)
		return nil
	}
	lines := strings.Split(string(src), "\n")
	enclosing := func(line int) *ast.FuncDecl {
		for _, d := range f.Decls {
			if fd, ok := d.(*ast.FuncDecl); ok {
				if fset.Position(fd.Pos()).Line <= line && line <= fset.Position(fd.End()).Line {
					return fd
				}
			}
		}
		return nil
	}
	byName := map[string]*gensim.MethodMeta{}
	for i := range meta.Methods {
		byName[meta.Methods[i].Name] = &meta.Methods[i]
	}
	var vs []*Violation
	seen := map[string]bool{}
	for _, m := range reDiag.FindAllStringSubmatch(out, -1) {
		if m[1] != "setup.gen.go" {
			continue
		}
		ln, _ := strconv.Atoi(m[2])
		fd := enclosing(ln)
		text := ""
		if ln-1 < len(lines) && ln > 0 {
			text = strings.TrimSpace(lines[ln-1])
		}
		if fd == nil {
			st.Note("compile diagnostic outside any function: %s", m[0])
			continue
		}
		mm := byName[fd.Name.Name]
		if mm == nil {
			st.Note("compile diagnostic in %s (not a generated method): %s", fd.Name.Name, m[4])
			continue
		}
		hasErr := false
		if fd.Type.Results != nil {
			for _, r := range fd.Type.Results.List {
				if id, ok := r.Type.(*ast.Ident); ok && id.Name == "error" {
					hasErr = true
				}
			}
		}
		isHookCall := func(h *gensim.HookMeta) bool {
			return h != nil && strings.Contains(text, h.Name+"(")
		}
		detail, _ := json.Marshal(map[string]any{"function": mm.Name, "notations": mm.Notes, "line": text, "diagnostic": m[4]})
		switch {
		case isHookCall(mm.Pre) || isHookCall(mm.Post):
			h, which := mm.Pre, "pre"
			if !isHookCall(mm.Pre) {
				h, which = mm.Post, "post"
			}
			key := "C10" + mm.Name + which
			if seen[key] {
				continue
			}
			seen[key] = true
			vs = append(vs, &Violation{Property: "C10", Invariant: "C10/hook-call-compiles", Detail: string(detail),
				Sig:     map[string]string{"hook": which, "hook_shape": hookShape(h), "shape": methodShape(mm)},
				Summary: fmt.Sprintf("%s: the %s hook call `%s` does not compile: %s", mm.Name, which, text, m[4])})
		case !hasErr && (containsCapable(text) || strings.Contains(m[4], "err") || strings.Contains(m[4], "assignment mismatch") || strings.Contains(m[4], "too many return values")):
			key := "C07" + mm.Name
			if seen[key] {
				continue
			}
			seen[key] = true
			vs = append(vs, &Violation{Property: "C07", Invariant: "C07/wired-into-no-error-function", Detail: string(detail),
				Sig:     map[string]string{"how": "does-not-compile", "shape": methodShape(mm)},
				Summary: fmt.Sprintf("%s has no error result but an error-capable function was wired into it: `%s`: %s", mm.Name, text, m[4])})
		default:
			st.Inc("n:unattributed_compile_diagnostics")
			st.Note("compile diagnostic not attributable to C07/C10 in %s: `%s`: %s", mm.Name, text, m[4])
		}
	}
	return vs
}

func containsCapable(text string) bool {
	for _, n := range capableNames {
		if regexp.MustCompile(`\b` + regexp.QuoteMeta(n) + `\(`).MatchString(text) {
			return true
		}
	}
	return false
}

func runTool(dir string, timeout time.Duration, name string, args ...string) (string, string, error) {
	ctx, cancel := context.WithTimeout(context.Background(), timeout)
	defer cancel()
	cmd := exec.CommandContext(ctx, name, args...)
	cmd.Dir = dir
	cmd.Env = sim.GoEnv()
	var so, se strings.Builder
	cmd.Stdout, cmd.Stderr = &so, &se
	err := cmd.Run()
	if ctx.Err() != nil {
		err = fmt.Errorf("timeout after %v", timeout)
	}
	return so.String(), se.String(), err
}

// execGen runs one gensim case for property prop ("C07" or "C10").
func execGen(env *sim.Env, c GenCase, prop string) CaseResult {
	st := NewStats()
	res := CaseResult{Stats: st}
	root, err := env.NewWorldDir(c.World, "gen")
	if err != nil {
		res.Infra = err
		return res
	}
	defer env.DropWorldDir(root)
	iv := SetupInv(c.World)
	rs := ExecSteps(env, root, []Step{{Op: "run", Inv: &iv, Bin: "plain"}}, st)
	r := &rs[0]
	if r.Err != nil || r.Obs == nil || strings.HasPrefix(r.Obs.Status, "starterr") || r.Obs.Status == "timeout" {
		res.Infra = fmt.Errorf("convergen run: %v %v", r.Err, r.Obs)
		return res
	}
	st.Inc("n:worlds:" + strings.SplitN(c.Meta.Kind, ":", 2)[0])
	res.Log = fmt.Sprintf("%s world=%s kind=%s status=%s out=%s", prop, c.World.Digest(), c.Meta.Kind, r.Obs.Status, sim.HashBytes(r.OutBytes))
	keep := func(vs []*Violation) {
		for _, v := range vs {
			if v.Property == prop {
				res.Viol = append(res.Viol, v)
			} else {
				st.Inc("n:violations_of_the_sibling_property_seen")
			}
		}
	}
	defer func() { res.Log += fmt.Sprintf(" viol=%d", len(res.Viol)) }()
	// ---- misfit worlds: the hook cannot fit the method, generation must be rejected
	if strings.HasPrefix(c.Meta.Kind, "misfit:") {
		st.Inc("n:misfit_hooks_tried")
		st.Seen("nontrivial", c.Meta.Kind+"|"+methodShape(&c.Meta.Methods[0]))
		mk := strings.TrimPrefix(c.Meta.Kind, "misfit:")
		mm := c.Meta.Methods[0]
		d, _ := json.Marshal(map[string]any{"notations": mm.Notes, "method": mm.Name, "shape": methodShape(&mm)})
		if len(st.Samples) == 0 {
			st.Samples = append(st.Samples, map[string]any{"kind": c.Meta.Kind, "notations": mm.Notes, "status": r.Obs.Status})
		}
		if r.Obs.Status != "exit:0" {
			st.Inc("n:misfit_hooks_rejected")
			return res
		}
		// A hook whose single result is a concrete type implementing error does not
		// fit the method as the tool stands. Should the tool ever learn to accept
		// such hooks, "fits" has to mean that it behaves: the succeeding hook returns
		// a nil value of its type, and the generated function must then carry on and
		// return a nil error. So for these kinds acceptance alone is no verdict: the
		// world is built and run.
		if mk != "concrete-error-result" && mk != "slice-error-result" && mk != "variadic-extras" {
			keep([]*Violation{{Property: "C10", Invariant: "C10/misfit-rejected", Sig: map[string]string{"misfit": mk},
				Summary: fmt.Sprintf("a hook whose shape cannot fit the method (%s) was accepted (exit 0)", c.Meta.Kind), Detail: string(d)}})
			return res
		}
		st.Inc("n:misfit_hooks_accepted_and_run")
		mod := filepath.Join(root, "mod")
		drv := filepath.Join(filepath.Dir(root), "driver")
		if _, berr, err := runTool(mod, 5*time.Minute, "go", "build", "-o", drv, "./cmd/driver"); err != nil {
			keep([]*Violation{{Property: "C10", Invariant: "C10/misfit-rejected", Sig: map[string]string{"misfit": mk, "how": "accepted-and-does-not-compile"},
				Summary: fmt.Sprintf("a hook returning a concrete error type (%s) was accepted and the output does not compile: %s", mk, clip([]byte(sim.Unsubst(berr, root)), 300)), Detail: string(d)}})
			return res
		}
		so, serr, err := runTool(mod, 2*time.Minute, drv)
		var reports []rtFuncReport
		if err != nil || json.Unmarshal([]byte(so), &reports) != nil || len(reports) == 0 || len(reports[0].Results) == 0 {
			st.Note("misfit world accepted but its driver failed: %v %s", err, clip([]byte(serr), 200))
			return res
		}
		if mk == "variadic-extras" {
			// accepted: then the hook must run once and be handed the additional arguments
			b := reports[0].Results[0]
			n, got := 0, []string(nil)
			for _, call := range b.Trace {
				if call.Site == "Bad"+mm.Name {
					n++
					got = call.Extra
				}
			}
			if b.Panic != "" || n != 1 || strings.Join(got, "|") != strings.Join(b.Extra, "|") {
				keep([]*Violation{{Property: "C10", Invariant: "C10/misfit-rejected", Sig: map[string]string{"misfit": mk, "how": "accepted-and-misbehaves"},
					Summary: fmt.Sprintf("a hook taking the additional arguments variadically was accepted, ran %d times and received %v where %v were passed %s", n, got, b.Extra, b.Panic), Detail: string(d)}})
			}
			return res
		}
		if b := reports[0].Results[0]; b.Err != "nil" || b.Panic != "" {
			keep([]*Violation{{Property: "C10", Invariant: "C10/misfit-rejected", Sig: map[string]string{"misfit": mk, "how": "accepted-and-misbehaves"},
				Summary: fmt.Sprintf("a hook returning a concrete error type (%s) was accepted, and although the hook succeeds (returns a nil value of its type) the generated function returns %s %s", mk, b.Err, b.Panic), Detail: string(d)}})
		}
		return res
	}
	if r.Obs.Status != "exit:0" {
		if c.Meta.Kind == "errshape" {
			// a converter or getter whose error result is a concrete type: refused today
			st.Inc("n:errshape_worlds_rejected_by_the_generator")
			return res
		}
		if c.Meta.Kind == "noerr" {
			st.Inc("n:noerr_worlds_rejected_by_the_generator")
			return res
		}
		st.Inc("n:normal_worlds_rejected")
		se := sim.Unsubst(string(r.Obs.Stderr), root)
		if len(se) > 400 {
			se = "..." + se[len(se)-400:]
		}
		st.Note("a well-formed gensim world was rejected (%s): %s", r.Obs.Status, se)
		return res
	}
	// ---- static check for the no-error-result family
	if c.Meta.Kind == "noerr" {
		st.Inc("n:noerr_worlds_accepted")
		fset := token.NewFileSet()
		f, perr := parser.ParseFile(fset, "setup.gen.go", r.OutBytes, 0)
		if perr == nil {
			byName := map[string]*gensim.MethodMeta{}
			for i := range c.Meta.Methods {
				byName[c.Meta.Methods[i].Name] = &c.Meta.Methods[i]
			}
			for _, d := range f.Decls {
				fd, ok := d.(*ast.FuncDecl)
				if !ok || byName[fd.Name.Name] == nil || fd.Body == nil {
					continue
				}
				mm := byName[fd.Name.Name]
				if c.Only != "" && c.Only != mm.Name {
					continue
				}
				hasErr := false
				if fd.Type.Results != nil {
					for _, rr := range fd.Type.Results.List {
						if id, ok := rr.Type.(*ast.Ident); ok && id.Name == "error" {
							hasErr = true
						}
					}
				}
				if hasErr {
					continue // e.g. the helper SubN, which does have an error result
				}
				st.Inc("n:noerr_functions_inspected")
				st.Seen("nontrivial", "noerr|"+methodShape(mm)+"|"+strings.Join(mm.Notes, ";"))
				var bad string
				ast.Inspect(fd.Body, func(n ast.Node) bool {
					if ce, ok := n.(*ast.CallExpr); ok && bad == "" {
						name := ""
						switch fn := ce.Fun.(type) {
						case *ast.Ident:
							name = fn.Name
						case *ast.SelectorExpr:
							name = fn.Sel.Name
						}
						for _, cn := range capableNames {
							if name == cn {
								bad = name
							}
						}
					}
					return true
				})
				if bad != "" {
					d, _ := json.Marshal(map[string]any{"function": mm.Name, "notations": mm.Notes})
					keep([]*Violation{{Property: "C07", Invariant: "C07/wired-into-no-error-function", Detail: string(d),
						Sig:     map[string]string{"how": "emitted-call", "path": sitePath(bad), "shape": methodShape(mm)},
						Summary: fmt.Sprintf("%s has no error result but the emitted body calls the error-capable %s", mm.Name, bad)}})
				}
			}
		}
		if len(res.Viol) > 0 {
			return res
		}
	}
	// ---- build and run the driver
	mod := filepath.Join(root, "mod")
	drv := filepath.Join(filepath.Dir(root), "driver")
	_, berr, err := runTool(mod, 5*time.Minute, "go", "build", "-o", drv, "./cmd/driver")
	if err != nil && c.Meta.GetterConv {
		// ":conv plain getter()" with an error-returning getter: does not compile on the
		// pinned tree (C01: not applicable here); explored only on a tree where it does
		st.Inc("n:getterconv_worlds_that_do_not_compile")
		return res
	}
	if err != nil {
		st.Inc("n:worlds_that_do_not_compile")
		vs := attributeDiagnostics(root, c.Meta, berr, st)
		keep(vs)
		if len(vs) == 0 {
			st.Note("world does not build and nothing is attributable: %s", clip([]byte(sim.Unsubst(berr, root)), 400))
			st.Inc("n:worlds_unexplored_build_failure")
		}
		return res
	}
	so, serr, err := runTool(mod, 2*time.Minute, drv)
	if err != nil {
		st.Inc("n:driver_failures")
		st.Note("driver failed: %v %s", err, clip([]byte(serr), 300))
		return res
	}
	var reports []rtFuncReport
	if err := json.Unmarshal([]byte(so), &reports); err != nil {
		res.Infra = fmt.Errorf("driver output: %v", err)
		return res
	}
	// event log: a digest of everything the driver recorded except addresses
	{
		h := ""
		for _, fr := range reports {
			for _, rr := range fr.Results {
				h += fr.Func + fmt.Sprint(fr.Set) + strings.Join(rr.Failing, ",") + "|" + siteSeq(rr.Trace) + "|" + rr.Err + "|" + rr.Dst + "|" + rr.Panic + "\n"
			}
		}
		res.Log += " driver=" + sim.HashBytes([]byte(h))
	}
	byName := map[string]*gensim.MethodMeta{}
	for i := range c.Meta.Methods {
		byName[c.Meta.Methods[i].Name] = &c.Meta.Methods[i]
	}
	find := func(name string, set int) *rtFuncReport {
		for i := range reports {
			if reports[i].Func == name && reports[i].Set == set {
				return &reports[i]
			}
		}
		return nil
	}
	for i := range reports {
		fr := &reports[i]
		mm := byName[fr.Func]
		if mm == nil || (c.Only != "" && c.Only != mm.Name) {
			continue
		}
		st.Inc("n:functions_run")
		if fr.Capped {
			st.Inc("n:functions_with_sampled_subsets")
		}
		if prop == "C07" {
			keep(oracleC07(mm, fr, st))
		} else {
			var tw *rtFuncReport
			if mm.Twin != "" {
				tw = find(mm.Twin, fr.Set)
			}
			keep(oracleC10(mm, fr, tw, st))
		}
		if len(st.Samples) < 2 && len(fr.Results) > 1 && (prop == "C07" || mm.Pre != nil || mm.Post != nil) {
			st.Samples = append(st.Samples, map[string]any{"function": mm.Name, "shape": methodShape(mm), "notations": mm.Notes, "operand_set": fr.Set,
				"fault_free_trace": siteSeq(fr.Results[0].Trace), "plans": len(fr.Results), "example_plan": fr.Results[len(fr.Results)-1].Failing,
				"example_trace": siteSeq(fr.Results[len(fr.Results)-1].Trace), "example_returned": fr.Results[len(fr.Results)-1].Err})
		}
	}
	return res
}

func shrinkGen(c GenCase) []GenCase {
	// restrict the oracle to one function at a time (the world stays the same:
	// removing methods would change what convergen emits for the others)
	if c.Only != "" {
		return nil
	}
	var out []GenCase
	for _, m := range c.Meta.Methods {
		d := c
		d.Only = m.Name
		out = append(out, d)
	}
	return out
}

func runGen(cfg Config, args []string, prop string) int {
	start := time.Now()
	level := "fault_enumeration"
	if prop == "C10" {
		level = "exploration"
	}
	env, err := sim.Prepare(cfg.Repo)
	defer env.Cleanup()
	rep0 := &Report{Property: prop, Level: level, Cfg: cfg, Stats: NewStats(), Start: start, KnownHits: map[string]int{}}
	if err != nil {
		rep0.InfraErr = err
		return Finish(rep0)
	}
	if len(args) >= 2 && args[0] == "replay" {
		return ReplayCase(prop, args[1], func(c GenCase) CaseResult { return execGen(env, c, prop) })
	}
	n := cfg.N(96, 1600)
	// C10: the misfit family is cheap (only the generator runs) and is covered
	// systematically: every misfit kind x {0,1,2 additional arguments}, repeated
	nMisfit := 0
	if prop == "C10" {
		nMisfit = cfg.N(3*len(gensim.MisfitKinds), 30*len(gensim.MisfitKinds))
	}
	if prop == "C07" {
		// a handful of worlds whose converter / getter returns a concrete error type
		nMisfit = cfg.N(8, 80)
	}
	b := &Batch[GenCase]{Property: prop, Level: level, Cfg: cfg, Env: env, N: n + nMisfit,
		Gen: func(i int) GenCase {
			r := sim.Derive(cfg.Seed, "gensim", prop, i)
			kind := "normal"
			switch {
			case i >= n && prop == "C07":
				kind = fmt.Sprintf("errshape=%d", (i-n)%4) // 0..2 concrete error type, 3 getter into a plain converter
			case i >= n:
				// every kind x {0,1,2 additional arguments}; every (kind, bystander) pair
				// occurs once per round of three
				j := i - n
				nk := len(gensim.MisfitKinds)
				kind = fmt.Sprintf("misfit=%s,%d,%d", gensim.MisfitKinds[j%nk], (j/nk)%3, (j/nk+j%nk)%3)
			case prop == "C07" && r.Intn(100) < 15:
				kind = "noerr"
			}
			w, m := gensim.Gen(r, kind)
			return GenCase{World: w, Meta: m}
		},
		Exec:   func(c GenCase) CaseResult { return execGen(env, c, prop) },
		Shrink: shrinkGen,
		Extra: map[string]any{"components_real": []string{"convergen compiled from /repo's working tree (plain binary)", "the Go compiler and linker", "the generated functions, running natively"},
			"components_simulated": []string{"every user-supplied converter, error-returning getter and pre/post hook (simulator-owned stubs reporting to package rt, which decides from the fault plan whether a call fails)", "the callers of the generated functions (generated driver)"},
			"simulated_time":       "not applicable"},
	}
	if prop == "C07" {
		b.Rule = "gensim worlds: 2-5 generated methods each over a struct universe with top-level, nested (value and pointer), embedded and additional-argument call sites for :conv converters, :map getters, :preprocess/:postprocess hooks and a converter that is itself generated in the same run; " +
			"styles return/arg, pointer/value operands, receiver, 0-2 additional arguments, two operand sets (nested pointers set / nil). For every generated function the driver runs the fault-free baseline and then EVERY subset of the error-capable call occurrences of that baseline (k<=8; else singles + 64 seeded subsets). " +
			"15% of the worlds are the family 'method without error result naming error-capable functions'. distinct_nontrivial counts distinct (method shape, notations, operand set, failing subset) tuples."
		b.Assume = []string{"user functions do not panic (excluded by the statement)", "error identity is checked with ==", "a compiler diagnostic in the generated file is attributed to C07 only when it sits in a function without error result on a line calling an error-capable stub (or mentions err / assignment mismatch there)"}
		b.Required = []string{"n:plans_executed"}
		b.Unwanted = []string{"n:normal_worlds_rejected", "n:worlds_unexplored_build_failure"}
		b.Desired = []string{"fired:conv-returns-error", "fired:getter-returns-error", "fired:pre-returns-error", "fired:post-returns-error"}
	} else {
		b.Rule = "gensim worlds (shared with C07): methods with :preprocess/:postprocess hooks over destination by pointer/value x source by pointer/value x with/without error x declaring the additional parameters or not x local or imported (blank-imported package) x style return/arg x pointer/value operands x receiver x 0-2 additional arguments; " +
			"by-pointer preprocess stubs write sentinels into every destination field; every hook records pointer identities and JSON snapshots of its operands. Oracle on the fault-free history: exactly once, pre first / post last, pre sees the destination as on entry, post sees the final value, own pointers, source and additional arguments as passed, " +
			"and the sentinel differential against the hook-less twin of the same method. A second family covers the 8 kinds of hooks that cannot fit their method x {0,1,2 additional arguments} systematically; each must be rejected. distinct_nontrivial counts distinct (method shape, pre-hook shape, post-hook shape, operand set) and (misfit kind, method shape) tuples."
		b.Assume = []string{":reverse is not generated (which operand a hook sees under :reverse is not documented)",
			"the hook-less twin of the sentinel differential is generated in arg style: which fields a method assigns is assumed not to depend on :style", "a panic exit of the generator counts as 'rejected' for misfit hooks (that it should be a diagnostic is C14)",
			"a compiler diagnostic on a hook call line of the generated file is a violation of 'passed by pointer or by value exactly as the hook declares'"}
		b.Required = []string{"n:hook_histories_checked", "n:misfit_hooks_tried"}
		b.Unwanted = []string{"n:normal_worlds_rejected", "n:worlds_unexplored_build_failure"}
		b.Desired = []string{"n:sentinel_differentials"}
	}
	rep := RunBatch(b, start)
	// evaluations = executions of generated functions (plans), not worlds
	rep.Stats.Counters["n:worlds_generated"] = rep.Stats.Counters["evaluations"]
	if prop == "C07" {
		rep.Stats.Counters["evaluations"] = rep.Stats.Counters["n:plans_executed"] + rep.Stats.Counters["n:noerr_functions_inspected"]
	} else {
		rep.Stats.Counters["evaluations"] = rep.Stats.Counters["n:hook_histories_checked"] + rep.Stats.Counters["n:misfit_hooks_tried"]
	}
	return Finish(rep)
}
