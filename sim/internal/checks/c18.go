package checks

import (
	"bytes"
	"fmt"
	"path/filepath"
	"strings"
	"time"

	"verifsim/internal/sim"
)

// C18 — CLI contract: output path, -out, -dry, -print, -log, GOFILE.
// Environment seam + a small executable reference model of the CLI; the
// configuration product is covered completely per world.

type C18Case struct {
	World   *sim.WorldSpec `json:"world"`
	Inv     Invocation     `json:"inv"`
	Form    string         `json:"form"`
	OutKind string         `json:"out_kind"`
	Canon   []byte         `json:"canon"` // B: bytes of the canonical run (no flags)
	Bin     string         `json:"bin"`
	Plan    *sim.Plan      `json:"plan,omitempty"`
	// Prior is what the output path holds before the run: "none", "same" (the
	// result of an earlier identical run: a user runs go generate again) or
	// "stale" (an older result), "empty" (a placeholder, or what an interrupted
	// write left) or "foreign" (a file of the package that no generator wrote).
	// "dry-run-before": nothing is there, a -dry -print run of the same invocation came first.
	// "failed-run-before": nothing is there, but an earlier run for the same output
	// failed (the setup file had a syntax error, since repaired).
	// The CLI contract is the same in all of them.
	Prior string `json:"prior,omitempty"`
	// LogDiff: the "-log changes neither code nor exit status" clause taken
	// differentially where no reference bytes exist: -out into a directory that
	// does not exist. The same invocation is run with and without -log in two
	// fresh worlds; status and what is at the output path must agree.
	LogDiff bool `json:"log_diff,omitempty"`
	// LinkOut: the package directory holds a symbolic link "current" to
	// elsewhere/releases/v1 and -out goes through it and "..".
	LinkOut bool `json:"link_out,omitempty"`
	// Env: what go generate exports besides GOFILE (the GOFILE forms)
	Env []string `json:"env,omitempty"`
}

var c18Priors = []string{"none", "same", "stale", "empty", "foreign", "failed-run-before", "dry-run-before"}

var c18Forms = []string{"rel-pkgdir", "rel-modroot", "abs", "gofile", "gofile-overridden", "symlink-modroot", "gofile-with-dir", "setup-is-link", "go-generate-from-parent"}
var c18Outs = []string{"none", "same-dir", "subdir", "dotdot-outside"}

func genC18(cfg Config, ws *WorldSet, accepted []int, i int) C18Case {
	per := 8 * len(c18Outs) * len(c18Forms)
	wi := accepted[(i/per)%len(accepted)]
	k := i % per
	fs := k % 8
	ok := (k / 8) % len(c18Outs)
	fm := (k / (8 * len(c18Outs))) % len(c18Forms)
	world := ws.Worlds[wi]
	r := sim.Derive(cfg.Seed, "C18", "case", i)
	setup := "{W}/" + world.Setup
	cwd, in, gofile := InputForm(c18Forms[fm], setup)
	iv := Invocation{Dry: fs&1 != 0, Print: fs&2 != 0, Log: fs&4 != 0, Cwd: cwd, Input: in, GoFile: gofile, FlagOrder: r.Intn(6)}
	if r.Chance(1, 2) {
		iv.Spell = 1 + r.Intn(1<<20)
	}
	pkgDir := filepath.Dir(setup)
	// where the kernel is when the process starts (the symlinked form resolved)
	physCwd := cwd
	if strings.HasPrefix(cwd, "{W}/elsewhere/modlink") {
		physCwd = "{W}/mod" + strings.TrimPrefix(cwd, "{W}/elsewhere/modlink")
	}
	// -out is given relative to the working directory in half of the cases
	relDir := strings.TrimPrefix(strings.TrimPrefix(pkgDir, physCwd), "/") // "" when cwd is the package dir
	rel := func(name string) string {
		if relDir == "" {
			return name
		}
		return relDir + "/" + name
	}
	canRel := strings.HasPrefix(pkgDir, physCwd)
	// an absolute -out is spelled the way a user in that shell would spell it
	// ($PWD/...): the workload never mixes the logical and the physical spelling
	// of one directory in a single command line (DESIGN.md section 5)
	absPkgDir := pkgDir
	if physCwd != cwd {
		absPkgDir = "{W}/elsewhere/modlink" + strings.TrimPrefix(pkgDir, "{W}/mod")
	}
	// the -out name varies too: the log path is derived from it
	linkOut := false
	outName := sim.Pick(r, []string{"zz_custom.go", "zz_dialog.go", "out.gen.go", "zz.out.go", "logo.go", "generated_code.go",
		// a legitimate name a few bytes short of NAME_MAX (the log's name is one byte longer)
		"zz_" + strings.Repeat("long", 60) + ".go"})
	switch c18Outs[ok] {
	case "same-dir":
		if canRel && r.Bool() {
			iv.OutArg = rel(outName)
		} else {
			iv.OutArg = absPkgDir + "/" + outName
		}
	case "subdir":
		iv.OutArg = absPkgDir + "/sub/" + outName
		if canRel && r.Bool() {
			iv.OutArg = rel("sub/" + outName)
		}
	case "dotdot-outside":
		// climbs out of the module with "..": the kernel resolves that against the
		// physical directory, which is what "the path the user gave" means
		up, _ := filepath.Rel(strings.TrimPrefix(physCwd, "{W}"), "/outside/"+outName)
		iv.OutArg = up
		if r.Bool() {
			// ".." right after a directory that is a symbolic link: <pkg>/current points
			// to elsewhere/releases/v1, so current/../x is elsewhere/releases/x for the
			// kernel (and <pkg>/x only for someone who collapses the path lexically)
			linkOut = true
			iv.OutArg = absPkgDir + "/current/../" + outName
			if canRel && r.Bool() {
				iv.OutArg = rel("current/../" + outName)
			}
		}
	}
	iv.OutPath = ResolveOut(physCwd, in, gofile, strings.Replace(iv.OutArg, "{W}/elsewhere/modlink", "{W}/mod", 1))
	if strings.HasPrefix(iv.OutPath, "{W}/elsewhere/modlink/") {
		iv.OutPath = "{W}/mod" + strings.TrimPrefix(iv.OutPath, "{W}/elsewhere/modlink")
	}
	if iv.OutArg == "" {
		iv.OutPath = ResolveOut(filepath.Dir(setup), filepath.Base(setup), "", "")
	}
	if linkOut {
		iv.OutPath = "{W}/elsewhere/releases/" + outName
	}
	c := C18Case{World: world, Inv: iv, Form: c18Forms[fm], OutKind: c18Outs[ok], Canon: ws.Canon[wi].Out, Bin: "plain", LinkOut: linkOut}
	// the GOFILE forms run in the environment go generate provides: GOPACKAGE is the
	// package of the file holding the directive - the setup file's own package when
	// the directive sits in the package directory, another one when it sits in the
	// parent directory's gen.go
	switch c.Form {
	case "gofile", "gofile-overridden", "gofile-with-dir":
		c.Env = []string{"GOPACKAGE=" + pkgNameOf(world.Files[world.Setup]), "GOLINE=3", "DOLLAR=$", "GOARCH=amd64", "GOOS=linux"}
	case "go-generate-from-parent":
		gp := "tools"
		if cwd == pkgDir {
			gp = pkgNameOf(world.Files[world.Setup])
		}
		c.Env = []string{"GOPACKAGE=" + gp, "GOLINE=7", "DOLLAR=$", "GOARCH=amd64", "GOOS=linux"}
	}
	// rotate systematically so that every (flag set, prior) pair occurs for every world
	c.Prior = c18Priors[(fs+ok+fm+(i/per))%len(c18Priors)]
	if r.Chance(1, 3) {
		c.Bin = "sim"
		c.Plan = &sim.Plan{Markers: genMarkers(r, 4)}
	}
	return c
}

func genC18LogDiff(cfg Config, ws *WorldSet, accepted []int, j int) C18Case {
	wi := accepted[(j/4)%len(accepted)]
	world := ws.Worlds[wi]
	r := sim.Derive(cfg.Seed, "C18", "logdiff", j)
	setup := "{W}/" + world.Setup
	form := []string{"rel-pkgdir", "rel-modroot"}[j%2]
	cwd, in, gofile := InputForm(form, setup)
	iv := Invocation{Print: (j/2)%2 == 1, Log: true, Cwd: cwd, Input: in, GoFile: gofile}
	iv.OutArg = filepath.Dir(setup) + "/" + sim.Pick(r, []string{"gen/v1/conv.gen.go", "missing/out.go", "a/b/c/logo.go"})
	iv.OutPath = ResolveOut(cwd, in, gofile, iv.OutArg)
	return C18Case{World: world, Inv: iv, Form: form, OutKind: "missing-dir", Canon: ws.Canon[wi].Out, Bin: "plain", Prior: "none", LogDiff: true}
}

func execC18LogDiff(env *sim.Env, c C18Case) CaseResult {
	st := NewStats()
	res := CaseResult{Stats: st}
	var obs [2]*StepResult
	var roots [2]string
	for k, log := range []bool{true, false} {
		root, err := env.NewWorldDir(c.World, "c18ld")
		if err != nil {
			res.Infra = err
			return res
		}
		defer env.DropWorldDir(root)
		iv := c.Inv
		iv.Log = log
		rs := ExecSteps(env, root, []Step{{Op: "run", Inv: &iv, Bin: c.Bin}}, st)
		if rs[0].Err != nil || rs[0].Obs == nil || strings.HasPrefix(rs[0].Obs.Status, "starterr") {
			res.Infra = fmt.Errorf("run: %v", rs[0].Err)
			return res
		}
		obs[k], roots[k] = &rs[0], root
	}
	a, b := obs[0], obs[1]
	st.Inc("n:log_differentials")
	st.Seen("nontrivial", fmt.Sprintf("%s|logdiff|%s|%v", c.World.Digest(), c.Form, c.Inv.Print))
	sig := map[string]string{"aspect": "log-changes-outcome", "flags": c.Inv.FlagSet(), "form": c.Form, "out": c.OutKind, "prior": "none"}
	switch {
	case a.Obs.Status != b.Obs.Status:
		res.Viol = append(res.Viol, &Violation{Property: "C18", Invariant: "C18/log-neutral", Sig: sig,
			Summary: fmt.Sprintf("[-out into a directory that does not exist, input %s] with -log the run ends %s, without -log %s", c.Form, a.Obs.Status, b.Obs.Status)})
	case a.OutExists != b.OutExists || !bytes.Equal(a.OutBytes, b.OutBytes):
		res.Viol = append(res.Viol, &Violation{Property: "C18", Invariant: "C18/log-neutral", Sig: sig,
			Summary: fmt.Sprintf("[-out into a directory that does not exist, input %s] -log changes what is at the output path", c.Form)})
	}
	res.Log = fmt.Sprintf("C18 logdiff world=%s form=%s with=%s without=%s viol=%d", c.World.Digest(), c.Form, a.Obs.Status, b.Obs.Status, len(res.Viol))
	return res
}

func execC18(env *sim.Env, c C18Case) CaseResult {
	if c.LogDiff {
		return execC18LogDiff(env, c)
	}
	st := NewStats()
	res := CaseResult{Stats: st}
	w0 := c.World.Clone()
	w0.Files[filepath.ToSlash(filepath.Join(filepath.Dir(c.World.Setup), "sub", "keep.txt"))] = "existing sub-directory\n"
	root, err := env.NewWorldDir(w0, "c18")
	if err != nil {
		res.Infra = err
		return res
	}
	defer env.DropWorldDir(root)
	iv := c.Inv
	run := Step{Op: "run", Inv: &iv, Bin: c.Bin, Plan: c.Plan, Env: c.Env}
	var steps []Step
	nHist := 0 // steps of a prior history that leave nothing at the output path
	nPreLink := 0
	switch c.Prior {
	case "same":
		steps = append(steps, Step{Op: "write", Path: iv.OutPath, Data: c.Canon})
	case "stale":
		steps = append(steps, Step{Op: "write", Path: iv.OutPath, Data: []byte("// Code generated by github.com/reedom/convergen\n// DO NOT EDIT.\n\npackage " + pkgNameOf(c.World.Files[c.World.Setup]) + "\n\n// result of an older setup file\nfunc OlderResult() {}\n")})
	case "failed-run-before":
		setup := "{W}/" + c.World.Setup
		first := Invocation{Cwd: iv.Cwd, Input: iv.Input, GoFile: iv.GoFile, OutArg: iv.OutArg, OutPath: iv.OutPath}
		steps = append(steps,
			Step{Op: "edit", Path: setup, Data: []byte(c.World.Files[c.World.Setup] + "\nfunc halfWritten( {\n")},
			Step{Op: "run", Inv: &first, Bin: "plain"},
			Step{Op: "edit", Path: setup, Data: []byte(c.World.Files[c.World.Setup])})
		nHist = 3
	case "dry-run-before":
		// the user looked at the result first (-dry -print), then generates
		first := Invocation{Cwd: iv.Cwd, Input: iv.Input, GoFile: iv.GoFile, OutArg: iv.OutArg, OutPath: iv.OutPath, Dry: true, Print: true}
		steps = append(steps, Step{Op: "run", Inv: &first, Bin: "plain"})
		nHist = 1
	case "empty":
		steps = append(steps, Step{Op: "write", Path: iv.OutPath, Data: []byte{}})
	case "foreign":
		steps = append(steps, Step{Op: "write", Path: iv.OutPath, Data: []byte("package " + pkgNameOf(c.World.Files[c.World.Setup]) + "\n\n// Placeholder was written by hand.\nvar Placeholder = 1\n")})
	}
	if c.Form == "setup-is-link" {
		// the setup file's name is a symbolic link to a file kept in a directory the go
		// tool does not look into: "the input path" is the path the user gave, and
		// that is where ".gen" goes, whatever the link points to
		setup := "{W}/" + c.World.Setup
		kept := "{W}/mod/_defs/" + filepath.Base(c.World.Setup)
		steps = append([]Step{{Op: "write", Path: kept, Data: []byte(c.World.Files[c.World.Setup])}, {Op: "remove", Path: setup}, {Op: "symlink", Path: setup, Data: []byte(kept)}}, steps...)
		nPreLink = 3
	}
	steps = append([]Step{{Op: "symlink", Path: "{W}/elsewhere/modlink", Data: []byte("{W}/mod")}}, steps...)
	nPre := 0
	if c.LinkOut {
		pre := []Step{{Op: "mkdir", Path: "{W}/elsewhere/releases/v1"}, {Op: "symlink", Path: filepath.Dir("{W}/"+c.World.Setup) + "/current", Data: []byte("{W}/elsewhere/releases/v1")}}
		steps = append(pre, steps...)
		nPre = len(pre)
	}
	steps = append(steps, run)
	rsAll := ExecSteps(env, root, steps, st)
	rs := rsAll[len(rsAll)-1:]
	r := &rs[0]
	prior, priorExists := []byte(nil), false
	if nHist == 0 && len(steps) > 2+nPre+nPreLink {
		prior, priorExists = steps[1+nPre+nPreLink].Data, true
	}
	otherDir := c.OutKind == "subdir" || c.OutKind == "dotdot-outside"
	if r.Err != nil || r.Obs == nil || strings.HasPrefix(r.Obs.Status, "starterr") {
		res.Infra = fmt.Errorf("run: %v", r.Err)
		return res
	}
	sig := func(aspect string) map[string]string {
		return map[string]string{"aspect": aspect, "flags": iv.FlagSet(), "form": c.Form, "out": c.OutKind, "prior": c.Prior}
	}
	add := func(inv, aspect, sum string) {
		res.Viol = append(res.Viol, &Violation{Property: "C18", Invariant: inv, Sig: sig(aspect),
			Summary: fmt.Sprintf("[%s, input %s, -out %s, output path before the run: %s] %s", iv.FlagSet(), c.Form, c.OutKind, c.Prior, sum),
			Detail:  "argv: " + fmt.Sprint(iv.Args()) + " cwd: " + iv.Cwd + " GOFILE=" + iv.GoFile + "\nstderr:\n" + clip([]byte(sim.Unsubst(string(r.Obs.Stderr), root)), 800)})
	}
	B := c.Canon
	outRel, _ := filepath.Rel(root, w(root, iv.OutPath))
	outRel = filepath.ToSlash(outRel)
	// 1. exit status
	if r.Obs.Status != "exit:0" {
		add("C18/exit-status", "nonzero", fmt.Sprintf("an accepted input ended %s", r.Obs.Status))
	}
	// 2./3. the output file
	if r.Obs.Status == "exit:0" {
		if iv.Dry {
			if r.OutExists != priorExists || !bytes.Equal(r.OutBytes, prior) {
				add("C18/dry-run", "dry-wrote", "-dry changed the output path")
			}
		} else {
			switch {
			case !r.OutExists:
				add("C18/output-file", "missing", "nothing was written to "+sim.Unsubst(iv.OutPath, root))
			case !otherDir && !bytes.Equal(r.OutBytes, B):
				add("C18/output-file", "bytes", fmt.Sprintf("the file at the output path differs from the canonical result: %s", firstDiff(B, r.OutBytes)))
			}
		}
		// 4. stdout
		code := B
		if otherDir && !iv.Dry && r.OutExists {
			code = r.OutBytes // goimports legitimately consults the target directory
		}
		if iv.Print {
			so := r.Obs.Stdout
			switch {
			case len(so) == 0:
				aspect := "print-empty-with-dry"
				if !iv.Dry {
					aspect = "print-empty-without-dry"
				}
				add("C18/stdout", aspect, "-print showed nothing on stdout")
			case otherDir && iv.Dry:
				// nothing to compare with (no file, other directory): must at least be the code of this package
				// (not "starts with the generated-code header": a tree may put a project's
				// licence header above it)
				pkgLine := []byte("package " + pkgNameOf(c.World.Files[c.World.Setup]) + "\n")
				if !bytes.HasPrefix(so, pkgLine) && !bytes.Contains(so, append([]byte("\n"), pkgLine...)) {
					add("C18/stdout", "print-not-code", "-print output is not code of the setup file's package")
				}
			case !bytes.Equal(so, code) && !bytes.Equal(so, append(append([]byte(nil), code...), '\n')):
				add("C18/stdout", "print-differs", fmt.Sprintf("-print output differs from the code: %s", firstDiff(code, so)))
			}
		} else if len(r.Obs.Stdout) != 0 {
			// The statement says what -print adds to stdout, not that stdout is silent
			// without it (a progress or summary line there breaks nothing it promises):
			// counted and noted, not a verdict
			st.Inc("n:runs_with_stdout_but_without_print")
			if st.Counters["n:runs_with_stdout_but_without_print"] == 1 {
				st.Note("stdout not empty without -print (not a violation of the statement): %q", clip(r.Obs.Stdout, 120))
			}
		}
		// 5. files created: exactly the output (unless -dry) and the log (iff -log)
		diffs := r.Pre.Diff(r.Post)
		var logs, stray []string
		sawOut := false
		for _, d := range diffs {
			p := d[1:]
			switch {
			case p == outRel:
				sawOut = true
			case strings.HasSuffix(p, ".log"):
				logs = append(logs, p)
			default:
				stray = append(stray, d)
			}
		}
		_ = sawOut
		if len(stray) > 0 {
			add("C18/files", "stray", "entries other than the output and the log changed: "+strings.Join(stray, " "))
		}
		if iv.Log {
			base := filepath.Base(outRel)
			ext := filepath.Ext(base)
			okNames := map[string]bool{base[:len(base)-len(ext)] + ".log": true, base + ".log": true}
			switch {
			case len(logs) != 1:
				add("C18/log-file", "count", fmt.Sprintf("-log created %d log files: %v", len(logs), logs))
			case filepath.ToSlash(filepath.Dir(logs[0])) != filepath.ToSlash(filepath.Dir(outRel)) || !okNames[filepath.Base(logs[0])]:
				add("C18/log-file", "name", fmt.Sprintf("the log %s is not next to / named after the output %s", logs[0], outRel))
			}
		} else if len(logs) > 0 {
			add("C18/log-file", "without-flag", fmt.Sprintf("a log file appeared without -log: %v", logs))
		}
	}
	st.Inc("n:configurations")
	st.Seen("nontrivial", fmt.Sprintf("%s|%s|%s|%s|%s", c.World.Digest(), iv.FlagSet(), c.Form, c.OutKind, c.Prior))
	st.Seen("configs", fmt.Sprintf("%s|%s|%s", iv.FlagSet(), c.Form, c.OutKind))
	st.Seen("flags-x-prior", iv.FlagSet()+"|"+c.Prior)
	st.Inc("n:prior:" + c.Prior)
	st.Seen("worlds", c.World.Digest())
	if len(st.Samples) == 0 {
		st.Samples = append(st.Samples, map[string]any{"world": c.World.Name, "argv": iv.Args(), "cwd": iv.Cwd, "GOFILE": iv.GoFile, "status": r.Obs.Status,
			"output_path_before": c.Prior, "tree_diff": r.Pre.Diff(r.Post), "stdout_bytes": len(r.Obs.Stdout), "out_equals_canon": bytes.Equal(r.OutBytes, B)})
	}
	res.Log = fmt.Sprintf("C18 world=%s argv=%v form=%s status=%s out=%s stdout=%s diff=%v viol=%d", c.World.Digest(), iv.Args(), c.Form, r.Obs.Status,
		sim.HashBytes(r.OutBytes), sim.HashBytes(r.Obs.Stdout), r.Pre.Diff(r.Post), len(res.Viol))
	return res
}

func shrinkC18(c C18Case) []C18Case {
	var out []C18Case
	if c.LogDiff {
		return nil
	}
	if c.Bin == "sim" {
		d := c
		d.Bin, d.Plan = "plain", nil
		out = append(out, d)
	}
	for _, f := range []string{"log", "dry", "print"} {
		d := c
		switch f {
		case "log":
			if !c.Inv.Log {
				continue
			}
			d.Inv.Log = false
		case "dry":
			if !c.Inv.Dry {
				continue
			}
			d.Inv.Dry = false
		case "print":
			if !c.Inv.Print {
				continue
			}
			d.Inv.Print = false
		}
		out = append(out, d)
	}
	if c.Prior != "none" && c.Prior != "" {
		d := c
		d.Prior = "none"
		out = append(out, d)
	}
	if c.Form != "rel-pkgdir" && c.OutKind == "none" {
		d := c
		cwd, in, gofile := InputForm("rel-pkgdir", "{W}/"+c.World.Setup)
		d.Inv.Cwd, d.Inv.Input, d.Inv.GoFile = cwd, in, gofile
		d.Inv.OutPath = ResolveOut(cwd, in, gofile, "")
		d.Form = "rel-pkgdir"
		out = append(out, d)
	}
	return out
}

func runC18(cfg Config, args []string) int {
	start := time.Now()
	env, err := sim.Prepare(cfg.Repo)
	defer env.Cleanup()
	rep0 := &Report{Property: "C18", Level: "exploration", Cfg: cfg, Stats: NewStats(), Start: start, KnownHits: map[string]int{}}
	if err != nil {
		rep0.InfraErr = err
		return Finish(rep0)
	}
	if len(args) >= 2 && args[0] == "replay" {
		return ReplayCase("C18", args[1], func(c C18Case) CaseResult { return execC18(env, c) })
	}
	nFix, nSyn := cfg.N(2, 6), cfg.N(3, 10)
	worlds, err := BuildWorlds(cfg, "C18", nFix, nSyn, 0, false, 0)
	if err != nil {
		rep0.InfraErr = err
		return Finish(rep0)
	}
	pre := NewStats()
	canon, err := ComputeCanon(env, worlds, pre)
	if err != nil {
		rep0.InfraErr = err
		return Finish(rep0)
	}
	ws := &WorldSet{Worlds: worlds, Canon: canon}
	var accepted []int
	for i, c := range canon {
		// accepted = the canonical run exits 0. Whether it wrote to the documented
		// path is part of what is checked, not a precondition.
		if c.Status == "exit:0" {
			accepted = append(accepted, i)
		}
	}
	if len(accepted) == 0 {
		rep0.InfraErr = fmt.Errorf("no accepted world among %d: nothing to explore", len(worlds))
		return Finish(rep0)
	}
	per := 8 * len(c18Outs) * len(c18Forms)
	nLogDiff := 4 * len(accepted)
	b := &Batch[C18Case]{Property: "C18", Level: "exploration", Cfg: cfg, Env: env, N: len(accepted)*per + nLogDiff,
		Gen: func(i int) C18Case {
			if i >= len(accepted)*per {
				return genC18LogDiff(cfg, ws, accepted, i-len(accepted)*per)
			}
			return genC18(cfg, ws, accepted, i)
		},
		Exec:   func(c C18Case) CaseResult { return execC18(env, c) },
		Shrink: shrinkC18,
		Rule: "for every accepted world (fixture and synthetic, incl. setup files named with several dots and nested package directories) the complete product {-dry} x {-print} x {-log} x {-out: none, other name in the same directory, existing sub-directory, a directory outside the module reached with ..} x " +
			"{input as argument relative to the package dir, relative to the module root, absolute, GOFILE only, GOFILE set but another argument given, relative to the module root entered through a symbolic link, GOFILE with directory components, the setup file's name being a symbolic link to a file kept elsewhere, a go:generate directive in the parent directory's package (GOFILE and GOPACKAGE describe that file, the input is an argument); the GOFILE forms with the variables go generate exports} (half of the command lines with the boolean flags in their other standard spellings: --x, -x=true, -x=1, explicit =false, shuffled, -- before the input) is run in a fresh world whose output path is, in rotation, empty / holds the result of an earlier identical run / holds an older result, " +
			"and compared with a reference model of the CLI built on the canonical run's bytes B. distinct_nontrivial counts distinct (world, flag set, input form, -out kind, prior state) tuples.",
		Assume:   []string{"one trailing newline after the code on stdout is accepted under -print", "for -out into another directory the file is compared with the same run's stdout, since goimports legitimately consults the target directory", "the log's name is checked only as 'same directory, named after the output, .log'"},
		Extra:    map[string]any{"components_real": componentsReal, "components_simulated": []string{"process environment (GOFILE), cwd, argv, stdout/stderr pipes", "marker entropy in a third of the runs"}, "seam": env.Seam, "accepted_worlds": len(accepted), "simulated_time": "not applicable"},
		Required: []string{"n:configurations"},
	}
	rep := RunBatch(b, start)
	rep.Stats.Merge(pre)
	rep.Exhaustive = len(rep.Violations) == 0
	return Finish(rep)
}
