package checks

import (
	"fmt"
	"os"
	"path/filepath"
	"sort"
	"strings"

	"verifsim/internal/sim"
)

// Invocation describes one convergen command line in world-relative terms.
// All paths use the {W} token for the world root.
type Invocation struct {
	Dry    bool   `json:"dry,omitempty"`
	Print  bool   `json:"print,omitempty"`
	Log    bool   `json:"log,omitempty"`
	OutArg string `json:"out_arg,omitempty"` // literal value of -out ("" = flag absent)
	Input  string `json:"input,omitempty"`   // literal positional argument ("" = none, GOFILE used)
	GoFile string `json:"gofile,omitempty"`  // value of GOFILE ("" = unset)
	Cwd    string `json:"cwd"`
	// OutPath is where the output is expected per the documented rule, as an
	// absolute {W} path; computed by the generator of the case, used only to
	// know which path the frame rule exempts.
	OutPath string `json:"out_path"`
	// FlagOrder permutes the flags (0 = canonical order).
	FlagOrder int `json:"flag_order,omitempty"`
	// LinkTarget: the output path is a symbolic link to this ({W}-absolute) path,
	// which does not exist yet: a successful run that writes through the link
	// creates it, and that IS its output.
	LinkTarget string `json:"link_target,omitempty"`
	// Spell (0 = plain) chooses among the spellings the standard flag package
	// gives every boolean flag - -x, --x, -x=true, -x=1 - spells a flag that is
	// off as -x=false / -x=0 now and then, shuffles the flags, and may put the
	// "--" terminator in front of the input: all of them the same command line.
	Spell int `json:"spell,omitempty"`
}

func (iv Invocation) Args() []string {
	var fl [][]string
	sp := uint32(iv.Spell)
	next := func(n uint32) uint32 { // a tiny LCG over the spelling value: no other source
		sp = sp*1664525 + 1013904223
		return (sp >> 16) % n
	}
	boolFlag := func(on bool, name string) {
		if iv.Spell == 0 {
			if on {
				fl = append(fl, []string{"-" + name})
			}
			return
		}
		if on {
			fl = append(fl, []string{[]string{"-" + name, "--" + name, "-" + name + "=true", "--" + name + "=1", "-" + name + "=T"}[next(5)]})
		} else if next(4) == 0 {
			fl = append(fl, []string{[]string{"-" + name + "=false", "--" + name + "=0", "-" + name + "=F"}[next(3)]})
		}
	}
	boolFlag(iv.Dry, "dry")
	boolFlag(iv.Print, "print")
	boolFlag(iv.Log, "log")
	if iv.OutArg != "" {
		switch (iv.FlagOrder / 2) % 3 {
		case 1:
			fl = append(fl, []string{"-out=" + iv.OutArg})
		case 2:
			fl = append(fl, []string{"--out", iv.OutArg})
		default:
			fl = append(fl, []string{"-out", iv.OutArg})
		}
	}
	if iv.FlagOrder%2 == 1 {
		for i, j := 0, len(fl)-1; i < j; i, j = i+1, j-1 {
			fl[i], fl[j] = fl[j], fl[i]
		}
	}
	if iv.Spell != 0 {
		for i := len(fl) - 1; i > 0; i-- {
			j := int(next(uint32(i + 1)))
			fl[i], fl[j] = fl[j], fl[i]
		}
	}
	var args []string
	for _, f := range fl {
		args = append(args, f...)
	}
	if iv.Input != "" {
		if iv.Spell != 0 && next(4) == 0 {
			args = append(args, "--")
		}
		args = append(args, iv.Input)
	}
	return args
}

func (iv Invocation) FlagSet() string {
	s := ""
	for _, p := range []struct {
		on bool
		n  string
	}{{iv.Dry, "dry"}, {iv.Print, "print"}, {iv.Log, "log"}, {iv.OutArg != "", "out"}} {
		if p.on {
			s += "+" + p.n
		}
	}
	if s == "" {
		return "none"
	}
	return s
}

// Step is one step of a simulated user history in a world.
type Step struct {
	Op   string      `json:"op"` // run | write | remove | mkdir | truncate | zerotail | edit | touch
	Path string      `json:"path,omitempty"`
	Data []byte      `json:"data,omitempty"`
	K    int         `json:"k,omitempty"`
	Inv  *Invocation `json:"inv,omitempty"`
	Bin  string      `json:"bin,omitempty"` // sim | plain
	Plan *sim.Plan   `json:"plan,omitempty"`
	Env  []string    `json:"env,omitempty"`
	GMP  int         `json:"gomaxprocs,omitempty"`
	Note string      `json:"note,omitempty"`
	// HomeRel: see sim.Ctx
	HomeRel string `json:"home_rel,omitempty"`
	// Stdout: see sim.Ctx
	Stdout string `json:"stdout,omitempty"`
}

type StepResult struct {
	Obs       *sim.Observation
	Pre, Post sim.Snapshot
	OutBytes  []byte // bytes at Inv.OutPath after the step
	OutExists bool
	Err       error // harness-level problem
}

func w(root, p string) string { return strings.ReplaceAll(p, "{W}", root) }

// ExecSteps applies the steps in order in the world at root.
func ExecSteps(env *sim.Env, root string, steps []Step, st *Stats) []StepResult {
	res := make([]StepResult, len(steps))
	for i, s := range steps {
		r := &res[i]
		p := w(root, s.Path)
		switch s.Op {
		case "write", "edit":
			os.MkdirAll(filepath.Dir(p), 0o755)
			r.Err = os.WriteFile(p, s.Data, 0o644)
		case "remove":
			r.Err = os.RemoveAll(p)
		case "mkdir":
			r.Err = os.MkdirAll(p, 0o755)
		case "chmod":
			if _, err := os.Lstat(p); err == nil {
				r.Err = os.Chmod(p, os.FileMode(s.K))
			}
		case "symlink":
			os.MkdirAll(filepath.Dir(p), 0o755)
			os.Remove(p)
			r.Err = os.Symlink(w(root, string(s.Data)), p)
		case "hardlink":
			os.Remove(p)
			r.Err = os.Link(w(root, string(s.Data)), p)
		case "truncate":
			r.Err = os.Truncate(p, int64(s.K))
		case "zerotail":
			// keep the first K bytes, zero-fill up to the previous length
			b, err := os.ReadFile(p)
			if err != nil {
				r.Err = err
				break
			}
			for j := s.K; j < len(b); j++ {
				b[j] = 0
			}
			r.Err = os.WriteFile(p, b, 0o644)
		case "touch":
			b, err := os.ReadFile(p)
			if err == nil {
				os.Remove(p)
				r.Err = os.WriteFile(p, b, 0o644)
			}
		case "run":
			if s.HomeRel != "" {
				// make HOME exist before the "before" snapshot is taken
				hd := filepath.Join(root, s.HomeRel, ".config", "go", "telemetry")
				os.MkdirAll(hd, 0o755)
				os.WriteFile(filepath.Join(hd, "mode"), []byte("off 2024-01-01\n"), 0o644)
			}
			pre, err := sim.TakeSnapshot(root)
			if err != nil {
				r.Err = err
				break
			}
			r.Pre = pre
			c := sim.Ctx{Binary: s.Bin, Args: s.Inv.Args(), Cwd: s.Inv.Cwd, Env: append([]string(nil), s.Env...), GoMaxProcs: s.GMP, Plan: s.Plan, HomeRel: s.HomeRel, Stdout: s.Stdout}

			if c.Binary == "" {
				c.Binary = "plain"
			}
			if s.Inv.GoFile != "" {
				c.Env = append(c.Env, "GOFILE="+s.Inv.GoFile)
			}
			r.Obs = env.Run(root, c)
			if r.Obs.Status == "timeout" {
				// the watchdog fired: once more with a doubled limit before giving up.
				// A run that still does not end is harness trouble (exit 2), never a
				// verdict: hangs are C14's business and a loaded machine is nobody's.
				if st != nil {
					st.Inc("n:watchdog_retries")
				}
				old := env.RunTimout
				env2 := *env
				env2.RunTimout = 2 * old
				r.Obs = env2.Run(root, c)
				if r.Obs.Status == "timeout" {
					r.Err = fmt.Errorf("convergen run did not end within %v (twice)", env2.RunTimout)
				}
			}
			if st != nil {
				recordObs(st, r.Obs)
			}
			post, err := sim.TakeSnapshot(root)
			if err != nil {
				r.Err = err
				break
			}
			r.Post = post
			r.OutBytes, r.OutExists = sim.ReadMaybe(w(root, s.Inv.OutPath))
		default:
			r.Err = fmt.Errorf("unknown step op %q", s.Op)
		}
	}
	return res
}

// FrameCheck is the C15 frame condition on one run: post == pre except the
// output path (iff the run was not dry and exited 0) and one log file next to
// the output (iff -log). It is evaluated on the kernel's view of the tree.
func FrameCheck(root string, s *Step, r *StepResult) []*Violation {
	if r.Obs == nil || r.Pre == nil || r.Post == nil {
		return nil
	}
	iv := s.Inv
	outRel, _ := filepath.Rel(root, w(root, iv.OutPath))
	outRel = filepath.ToSlash(outRel)
	diffs := r.Pre.Diff(r.Post)
	// only the simulator's own power cut (SIGKILL inside a write) excuses a changed
	// output; a run ended by a signal it could have caught is a failed run
	crashed := r.Obs.Status == "signal:killed"
	okExit := r.Obs.Status == "exit:0"
	var vs []*Violation
	logsSeen := 0
	var stray []string
	for _, d := range diffs {
		p := d[1:]
		if p == outRel {
			if iv.Dry || (!okExit && !crashed) {
				kind := "failed-run"
				if iv.Dry {
					kind = "dry-run"
				}
				inv := "C15/output-untouched"
				if !iv.Dry && r.hasFired("WriteFile:short_write") {
					inv = "C15/mid-write"
				}
				// the fault that did the damage: the in-place write failing midway, however
				// the run got there (directly, or through a fallback after another fault)
				fault := strings.Join(r.Obs.Fired, ",")
				if inv == "C15/mid-write" {
					fault = "WriteFile:short_write"
				}
				vs = append(vs, &Violation{Property: "C15", Invariant: inv,
					Sig:     map[string]string{"run": kind, "change": d[:1], "status": r.Obs.Status, "fault": fault, "all_faults_fired": strings.Join(r.Obs.Fired, ",")},
					Summary: fmt.Sprintf("%s (%s, flags %s) changed the output path: %s", kind, r.Obs.Status, iv.FlagSet(), d)})
			}
			continue
		}
		if iv.LinkTarget != "" && okExit && !iv.Dry {
			if lt, _ := filepath.Rel(root, w(root, iv.LinkTarget)); filepath.ToSlash(lt) == p {
				continue
			}
		}
		// a run that wrote its output may have created the directories leading to it
		// (a tool that creates missing parents of -out does not violate the frame;
		// leaving them behind after a failed or dry run does)
		if d[0] == '+' && okExit && !iv.Dry && r.Post[p].Type == "dir" && strings.HasPrefix(outRel, p+"/") {
			continue
		}
		if iv.Log && filepath.ToSlash(filepath.Dir(p)) == filepath.ToSlash(filepath.Dir(outRel)) && strings.HasSuffix(p, ".log") {
			logsSeen++
			if logsSeen == 1 {
				continue
			}
		}
		stray = append(stray, d)
	}
	if len(stray) > 0 && !crashed {
		sort.Strings(stray)
		kinds := map[string]bool{}
		for _, d := range stray {
			kinds[d[:1]+classifyPath(d[1:], outRel)] = true
		}
		var ks []string
		for k := range kinds {
			ks = append(ks, k)
		}
		sort.Strings(ks)
		vs = append(vs, &Violation{Property: "C15", Invariant: "C15/frame",
			Sig:     map[string]string{"what": strings.Join(ks, ","), "status": r.Obs.Status, "flags": iv.FlagSet()},
			Summary: fmt.Sprintf("run (%s, flags %s) changed entries other than its output/log: %s", r.Obs.Status, iv.FlagSet(), strings.Join(stray, " "))})
	}
	return vs
}

func (r *StepResult) hasFired(k string) bool {
	if r.Obs == nil {
		return false
	}
	for _, f := range r.Obs.Fired {
		if f == k {
			return true
		}
	}
	return false
}

func classifyPath(p, outRel string) string {
	switch {
	case strings.HasPrefix(p, "tmp/"):
		return "tmp"
	case strings.HasPrefix(p, "outside/"):
		return "outside"
	case strings.HasPrefix(p, "elsewhere/"):
		return "elsewhere"
	case strings.HasSuffix(p, ".log"):
		return "log"
	case strings.HasSuffix(p, ".go"):
		if filepath.Dir(p) == filepath.Dir(outRel) {
			return "go-file-in-output-dir"
		}
		return "go-file"
	case strings.HasSuffix(p, "go.mod") || strings.HasSuffix(p, "go.sum"):
		return "gomod"
	}
	if filepath.Dir(p) == filepath.Dir(outRel) {
		return "other-in-output-dir"
	}
	return "other"
}

// DefaultOut applies the documented rule: ".gen" inserted before the extension.
func DefaultOut(input string) string {
	ext := filepath.Ext(input)
	return input[:len(input)-len(ext)] + ".gen" + ext
}

// InputForm builds the invocation pieces for one way of naming the setup file.
// setup is the {W}-absolute path of the setup file.
func InputForm(form, setup string) (cwd, input, gofile string) {
	dir := filepath.Dir(setup)
	base := filepath.Base(setup)
	modRoot := "{W}/mod"
	relFromMod := strings.TrimPrefix(setup, modRoot+"/")
	switch form {
	case "rel-pkgdir", "setup-is-link":
		// (setup-is-link: the same command line; the case makes the setup file's
		// name a symbolic link to a file kept elsewhere)
		return dir, base, ""
	case "dot-rel-pkgdir":
		return dir, "./" + base, ""
	case "rel-modroot":
		return modRoot, relFromMod, ""
	case "dotdot":
		// a/../a spelling from the module root
		first := strings.SplitN(relFromMod, "/", 2)[0]
		return modRoot, first + "/../" + relFromMod, ""
	case "abs":
		return dir, setup, ""
	case "abs-modroot":
		return modRoot, setup, ""
	case "symlink-modroot":
		// the module root entered through a symbolic link whose logical parent
		// (elsewhere/) differs from the physical one
		return "{W}/elsewhere/modlink", relFromMod, ""
	case "symlink-pkgdir":
		// the package directory reached through a symbolic link to the module root
		return strings.Replace(dir, modRoot, "{W}/modlink", 1), base, ""
	case "gofile":
		return dir, "", base
	case "gofile-with-dir":
		// not what go generate does, but what a user may: GOFILE with directory components
		return modRoot, "", relFromMod
	case "go-generate-from-parent":
		// //go:generate convergen conv/setup.go in a file (gen.go) of the PARENT
		// directory's package: go generate runs the command there, with GOFILE and
		// GOPACKAGE describing gen.go, not the setup file
		if dir != modRoot {
			return filepath.Dir(dir), filepath.Base(dir) + "/" + base, "gen.go"
		}
		return dir, base, "gen.go"
	case "gofile-overridden":
		// GOFILE names something else; the argument is the input
		return dir, base, "doc.go"
	}
	return dir, base, ""
}

// ResolveOut computes the absolute {W} output path for an invocation given
// the literal input and -out values.
func ResolveOut(cwd, input, gofile, outArg string) string {
	in := input
	if in == "" {
		in = gofile
	}
	out := outArg
	if out == "" {
		out = DefaultOut(in)
	}
	if strings.HasPrefix(out, "{W}") || filepath.IsAbs(out) {
		return cleanW(out)
	}
	return cleanW(cwd + "/" + out)
}

func cleanW(p string) string {
	if strings.HasPrefix(p, "{W}") {
		return "{W}" + filepath.Clean(strings.TrimPrefix(p, "{W}"))
	}
	return filepath.Clean(p)
}
