package checks

import (
	"fmt"
	"os"
	"path/filepath"
	"strings"
	"time"

	"verifsim/internal/sim"
)

// C15 — a run writes only its output (and log); dry or failed runs write
// nothing there. One case = one run in a fresh world whose whole tree is
// snapshotted before and after.

type C15Case struct {
	World *sim.WorldSpec `json:"world"`
	Kind  string         `json:"kind"`
	Steps []Step         `json:"steps"`
	Twin  bool           `json:"twin,omitempty"` // also run with the plain binary (seam transparency sample)
}

var c15Kinds = []string{"absent", "present-valid", "present-garbage", "unwritable-EACCES", "unwritable-EROFS",
	"dir-at-output", "log-unwritable", "log-is-dir", "mid-write", "stat-src-error", "open-EMFILE", "commit-error", "output-links-to-setup", "stdout-unwritable", "interrupted", "go-tool-failing", "log-device-full", "output-dangling-link", "timers-fire-early", "output-relative-link"}

var outVariants = []string{"same-dir", "subdir", "other-pkg", "outside", "parent-missing", "abs-same-dir", "dotdot-outside"}

func logPathFor(out string) string {
	ext := filepath.Ext(out)
	return out[:len(out)-len(ext)] + ".log"
}

func genC15(cfg Config, ws *WorldSet, i, perWorld int) C15Case {
	wi := (i / perWorld) % len(ws.Worlds)
	slot := i % perWorld
	fs := (slot / (perWorld / 16)) % 16
	world := ws.Worlds[wi]
	canon := ws.Canon[wi]
	r := sim.Derive(cfg.Seed, "C15", "case", i)
	setup := "{W}/" + world.Setup
	form := sim.Pick(r, []string{"rel-pkgdir", "rel-pkgdir", "rel-modroot", "abs", "gofile", "dot-rel-pkgdir", "symlink-modroot"})
	cwd, in, gofile := InputForm(form, setup)
	// where the kernel is when the process starts (the symlinked form resolved)
	physCwd := cwd
	if strings.HasPrefix(cwd, "{W}/elsewhere/modlink") {
		physCwd = "{W}/mod" + strings.TrimPrefix(cwd, "{W}/elsewhere/modlink")
	}
	iv := Invocation{Dry: fs&1 != 0, Print: fs&2 != 0, Log: fs&4 != 0, Cwd: cwd, Input: in, GoFile: gofile, FlagOrder: r.Intn(6)}
	if r.Chance(1, 2) {
		iv.Spell = 1 + r.Intn(1<<20)
	}
	kind := sim.Pick(r, c15Kinds)
	pkgDir := filepath.Dir(setup)
	// absolute paths are spelled the way a user in that shell would ($PWD/...)
	logical := func(p string) string {
		if physCwd != cwd {
			return "{W}/elsewhere/modlink" + strings.TrimPrefix(p, "{W}/mod")
		}
		return p
	}
	if fs&8 != 0 {
		ov := sim.Pick(r, outVariants)
		switch ov {
		case "same-dir":
			iv.OutArg = "custom_out.go"
			if physCwd != pkgDir {
				iv.OutArg = logical(pkgDir) + "/custom_out.go"
			}
		case "abs-same-dir":
			iv.OutArg = logical(pkgDir) + "/zz_generated.go"
		case "subdir":
			iv.OutArg = logical(pkgDir) + "/sub/out.gen.go"
		case "dotdot-outside":
			// climbs out of the module with "..": resolved by the kernel against the
			// physical directory. The lexically collapsed spelling (against a symlinked
			// $PWD) names another existing directory: elsewhere/outside
			up, _ := filepath.Rel(strings.TrimPrefix(physCwd, "{W}"), "/outside/out.gen.go")
			iv.OutArg = up
		case "other-pkg":
			iv.OutArg = "{W}/mod/zz_elsewhere/conv.gen.go"
		case "outside":
			iv.OutArg = "{W}/outside/out.gen.go"
		case "parent-missing":
			iv.OutArg = logical(pkgDir) + "/no/such/dir/out.gen.go"
		}
		kind += "/out=" + ov
	}
	iv.OutPath = ResolveOut(physCwd, in, gofile, strings.Replace(iv.OutArg, "{W}/elsewhere/modlink", "{W}/mod", 1))
	if iv.OutArg == "" {
		iv.OutPath = ResolveOut(filepath.Dir(setup), filepath.Base(setup), "", "")
	}
	c := C15Case{World: world}
	stdoutMode := ""
	var runEnv []string
	steps := []Step{{Op: "symlink", Path: "{W}/elsewhere/modlink", Data: []byte("{W}/mod")}, {Op: "write", Path: "{W}/elsewhere/outside/keep.txt", Data: []byte("a directory that a lexically collapsed ../outside would name\n")}}
	plan := &sim.Plan{Markers: genMarkers(r, 4)}
	// whatever clock the tree may read (it reads none today) shows a seeded instant in
	// half of the cases: long before or after the time stamps of the files
	if ck := sim.Derive(cfg.Seed, "C15", "clock", i); ck.Bool() {
		plan.ClockSet, plan.ClockStart, plan.ClockStepNs = true, sim.Pick(ck, clockInstants), int64(sim.Pick(ck, []int{1000, 1000000, 999999999}))
	}
	base := strings.SplitN(kind, "/", 2)[0]
	// what version control keeps next to the sources: in half of the cases the
	// directory of the output (when it exists) and the module root hold a
	// .gitattributes and a .gitignore - files like any other that a run must not touch
	if vc := sim.Derive(cfg.Seed, "C15", "vcs", i); vc.Bool() && !strings.Contains(kind, "parent-missing") {
		for _, d := range []string{filepath.Dir(iv.OutPath), "{W}/mod"} {
			steps = append(steps, Step{Op: "write", Path: d + "/.gitattributes", Data: []byte("*.pb.go linguist-generated=true\n*.png binary\n")},
				Step{Op: "write", Path: d + "/.gitignore", Data: []byte("*.test\n/bin/\n")})
		}
		// ... and what a project keeps there besides: a Makefile, a README, and in the
		// package directory a doc.go holding the go:generate directive
		steps = append(steps, Step{Op: "write", Path: "{W}/mod/Makefile", Data: []byte("generate:\n\tgo generate ./...\n")},
			Step{Op: "write", Path: filepath.Dir(iv.OutPath) + "/README.md", Data: []byte("# Generated code\n\nFiles ending in .gen.go are generated; do not edit.\n")})
		if filepath.Dir(iv.OutPath) == pkgDir {
			steps = append(steps, Step{Op: "write", Path: pkgDir + "/doc.go", Data: []byte("// Package " + pkgNameOf(world.Files[world.Setup]) + " holds the copy functions.\npackage " + pkgNameOf(world.Files[world.Setup]) + "\n\n//go:generate convergen " + filepath.Base(setup) + "\n")})
		}
	}
	if strings.Contains(kind, "other-pkg") {
		steps = append(steps, Step{Op: "write", Path: "{W}/mod/zz_elsewhere/keep.go", Data: []byte("package zz_elsewhere\n")})
	}
	present := func() {
		data := []byte("package " + pkgNameOf(world.Files[world.Setup]) + "\n\n// older output\nvar Older = 1\n")
		if canon.HasOut && r.Chance(2, 3) {
			data = canon.Out
		}
		steps = append(steps, Step{Op: "write", Path: iv.OutPath, Data: data})
	}
	if !strings.Contains(kind, "parent-missing") {
		switch base {
		case "absent":
		case "present-valid":
			present()
		case "present-garbage":
			g := sim.Pick(r, []string{"package " + pkgNameOf(world.Files[world.Setup]) + "\n\nfunc broken( {\n", "%%% not go at all %%%\n", ""})
			steps = append(steps, Step{Op: "write", Path: iv.OutPath, Data: []byte(g)})
		case "unwritable-EACCES", "unwritable-EROFS", "open-EMFILE":
			if r.Bool() {
				present()
			}
			plan.Faults = append(plan.Faults, sim.Fault{Op: "OUTPUT-OPEN", Path: iv.OutPath, Kind: "open_err", Errno: strings.SplitN(base, "-", 2)[1]})
		case "dir-at-output":
			steps = append(steps, Step{Op: "mkdir", Path: iv.OutPath})
		case "output-links-to-setup":
			// the output path is a symbolic or hard link to the setup file itself: whatever
			// the run does, "the setup file is never modified" (other link targets are not
			// generated: writing through a link to an unrelated file is the path the user gave)
			if filepath.Dir(iv.OutPath) == filepath.Dir(setup) {
				steps = append(steps, Step{Op: sim.Pick(r, []string{"symlink", "hardlink"}), Path: iv.OutPath, Data: []byte(setup)})
			}
		case "log-unwritable":
			if r.Bool() {
				present()
			}
			plan.Faults = append(plan.Faults, sim.Fault{Op: "OpenFile", Path: logPathFor(iv.OutPath), Kind: "open_err", Errno: "EACCES"})
		case "log-is-dir":
			if r.Bool() {
				present()
			}
			if iv.Log {
				steps = append(steps, Step{Op: "mkdir", Path: logPathFor(iv.OutPath)})
			}
		case "mid-write":
			present()
			k := sim.Pick(r, []int{0, 1, 17, 64, 200, 1000, -1})
			plan.Faults = append(plan.Faults, sim.Fault{Op: "OUTPUT-OPEN", Path: iv.OutPath, Kind: "short_write", Errno: sim.Pick(r, []string{"ENOSPC", "EIO", "EFBIG", "EDQUOT"}), K: k})
		case "stdout-unwritable":
			// the other stream a run writes to: stdout full (ENOSPC) or not open for
			// writing (EBADF). Whether the run then fails is its business; if it does,
			// the output path must be as it was
			if r.Bool() {
				present()
			}
			stdoutMode = sim.Pick(r, []string{"full", "readonly"})
		case "commit-error":
			// only reachable if the tree moves a file onto the output path (it does
			// not today: then this is a plain fault-free case)
			if r.Bool() {
				present()
			}
			plan.Faults = append(plan.Faults, sim.Fault{Op: "OUTPUT-COMMIT", Path: iv.OutPath, Kind: "err", Errno: sim.Pick(r, []string{"EACCES", "EIO", "ENOSPC", "EXDEV", "EBUSY"})})
		case "interrupted":
			// a signal the process may catch (ctrl-C, make's or a supervisor's TERM, a
			// closed terminal) arrives at one point of the run: on entry, while the
			// package is being loaded, or when everything is ready to be written.
			// However the run ends then, if it ends in an error the output path must be
			// as it was
			if r.Chance(2, 3) {
				present()
			}
			sig := sim.Pick(r, []string{"sigint", "sigint", "sigterm", "sighup"})
			switch r.Intn(6) {
			case 0:
				plan.Faults = append(plan.Faults, sim.Fault{Op: "Stat", Path: setup, Nth: 1, Kind: sig})
			case 1:
				plan.Faults = append(plan.Faults, sim.Fault{Op: "Stat", Path: setup, Nth: 2, Kind: sig})
			case 2:
				plan.Faults = append(plan.Faults, sim.Fault{Op: "Stat", Path: iv.OutPath, Nth: 1, Kind: sig})
			case 3:
				// when the log is opened (only with -log), else when the output is
				plan.Faults = append(plan.Faults, sim.Fault{Op: "OpenFile", Path: logPathFor(iv.OutPath), Nth: 1, Kind: sig},
					sim.Fault{Op: "OUTPUT-OPEN", Path: iv.OutPath, Kind: sig})
			default:
				plan.Faults = append(plan.Faults, sim.Fault{Op: "OUTPUT-OPEN", Path: iv.OutPath, Kind: sig})
			}
		case "log-device-full":
			// the log opens, but nothing can be written to it (its name is a link to
			// /dev/full: ENOSPC on every write). Whether that makes the run fail is the
			// tree's business; if it fails, the output path must be as it was
			if r.Bool() {
				present()
			}
			if fi, err := os.Stat("/dev/full"); iv.Log && err == nil && fi.Mode()&os.ModeCharDevice != 0 {
				steps = append(steps, Step{Op: "symlink", Path: logPathFor(iv.OutPath), Data: []byte("/dev/full")})
			}
		case "output-dangling-link":
			// the output path is a symbolic link whose target cannot be created (its
			// directory does not exist), or can but the open fails: the link itself is
			// what "the output path" held before, and a failed run leaves it there
			if r.Bool() || physCwd != cwd {
				// (also whenever the module is entered through a link: the injected open
				// error is keyed by the physical path and must not be missed here)
				steps = append(steps, Step{Op: "symlink", Path: iv.OutPath, Data: []byte("{W}/nowhere/generated.go")})
			} else {
				steps = append(steps, Step{Op: "symlink", Path: iv.OutPath, Data: []byte("{W}/outside/generated_elsewhere.go")})
				iv.LinkTarget = "{W}/outside/generated_elsewhere.go"
				plan.Faults = append(plan.Faults, sim.Fault{Op: "OUTPUT-OPEN", Path: iv.OutPath, Kind: "open_err", Errno: sim.Pick(r, []string{"EACCES", "EROFS", "ENOSPC"})})
			}
		case "output-relative-link":
			// the output path is a symbolic link with a RELATIVE target (a generated file
			// kept in a store next to it: the name starts with "_", so the go tool leaves
			// it out of the package). The kernel resolves such a target against the
			// link's own directory, wherever the process was started: what is written
			// through the link is the output, the link itself stays a link, and nothing
			// appears anywhere else
			store := filepath.Dir(iv.OutPath) + "/_generated_store.go"
			if r.Chance(2, 3) {
				data := []byte("package " + pkgNameOf(world.Files[world.Setup]) + "\n\n// older output\nvar Older = 1\n")
				if canon.HasOut && r.Bool() {
					data = canon.Out
				}
				steps = append(steps, Step{Op: "write", Path: store, Data: data})
			}
			steps = append(steps, Step{Op: "symlink", Path: iv.OutPath, Data: []byte("_generated_store.go")})
			iv.LinkTarget = store
		case "timers-fire-early":
			// whatever timeout, deadline or timer the tree arms fires at once (the
			// rest of the world was slow). Today's tree arms none: a plain run
			if r.Chance(2, 3) {
				present()
			}
			plan.TimersEarly = true
		case "go-tool-failing":
			// the subprocess convergen depends on (go list, go env) is the one part of
			// its I/O that no seam intercepts: a stand-in go command first in PATH fails,
			// answers rubbish, dies, or there is none at all. However the run ends then,
			// the frame holds, and if it ends in an error the output is as it was
			if r.Chance(2, 3) {
				present()
			}
			script := ""
			switch r.Intn(4) {
			case 0:
				script = "#!/bin/sh\necho 'go: cannot find GOROOT directory' >&2\nexit 2\n"
			case 1:
				script = "#!/bin/sh\necho '{\"ImportPath\": not json'\nexit 0\n"
			case 2:
				script = "#!/bin/sh\nkill -9 $$\n"
			}
			steps = append(steps, Step{Op: "mkdir", Path: "{W}/fakebin"})
			if script != "" {
				steps = append(steps, Step{Op: "write", Path: "{W}/fakebin/go", Data: []byte(script)}, Step{Op: "chmod", Path: "{W}/fakebin/go", K: 0o755})
				runEnv = append(runEnv, "PATH={W}/fakebin:/usr/bin:/bin")
			} else {
				runEnv = append(runEnv, "PATH={W}/fakebin")
			}
		case "stat-src-error":
			if r.Bool() {
				present()
			}
			plan.Faults = append(plan.Faults, sim.Fault{Op: "Stat", Path: setup, Nth: 1, Kind: "err", Errno: sim.Pick(r, []string{"EACCES", "EIO"})})
		}
	}
	bin := "sim"
	if len(plan.Faults) == 0 && !plan.TimersEarly {
		switch r.Intn(8) {
		case 0:
			c.Twin = true
		case 1, 2:
			bin = "plain"
		}
	}
	run := Step{Op: "run", Inv: &iv, Bin: bin, GMP: sim.Pick(r, []int{0, 1, 2, 4}), HomeRel: "home", Stdout: stdoutMode, Env: runEnv}
	if bin == "sim" {
		run.Plan = plan
	}
	steps = append(steps, run)
	c.Kind = kind
	c.Steps = steps
	return c
}

const nanoAlphabet = "_-0123456789abcdefghijklmnopqrstuvwxyzABCDEFGHIJKLMNOPQRSTUVWXYZ"

// genMarkers draws n distinct 21-character markers; some with unusual shapes
// (all-equal tail, leading '-', '_' or digit, long common prefix between them).
func genMarkers(r *sim.Rng, n int) []string {
	out := make([]string, 0, n)
	shape := r.Intn(6)
	prefix := ""
	if shape == 4 {
		b := make([]byte, 18)
		for i := range b {
			b[i] = nanoAlphabet[r.Intn(64)]
		}
		prefix = string(b)
	}
	seen := map[string]bool{}
	for len(out) < n {
		b := make([]byte, 21)
		for i := range b {
			b[i] = nanoAlphabet[r.Intn(64)]
		}
		switch shape {
		case 1:
			b[0] = '-'
		case 2:
			b[0] = '_'
			b[20] = '_'
		case 3:
			b[0] = byte('0' + r.Intn(10))
		case 4:
			copy(b, prefix)
		case 5:
			for i := 3; i < 21; i++ {
				b[i] = b[2]
			}
		}
		s := string(b)
		if seen[s] {
			continue
		}
		seen[s] = true
		out = append(out, s)
	}
	return out
}

func execC15(env *sim.Env, c C15Case) CaseResult {
	st := NewStats()
	res := CaseResult{Stats: st}
	root, err := env.NewWorldDir(c.World, "c15")
	if err != nil {
		res.Infra = err
		return res
	}
	defer env.DropWorldDir(root)
	rs := ExecSteps(env, root, c.Steps, st)
	last := len(c.Steps) - 1
	for i, r := range rs {
		if r.Err != nil && i != last {
			res.Infra = fmt.Errorf("state step %d (%s): %v", i, c.Steps[i].Op, r.Err)
			return res
		}
	}
	run := &c.Steps[last]
	r := &rs[last]
	if r.Err != nil || r.Obs == nil {
		res.Infra = fmt.Errorf("run step: %v", r.Err)
		return res
	}
	if strings.HasPrefix(r.Obs.Status, "starterr") {
		res.Infra = fmt.Errorf("run did not start: %s", r.Obs.Status)
		return res
	}
	res.Viol = FrameCheck(root, run, r)
	outcome := "fail"
	if r.Obs.Status == "exit:0" {
		outcome = "ok"
	}
	accepted := "accepted-world"
	if strings.HasPrefix(c.World.Expect, "reject") {
		accepted = "rejected-world"
	}
	st.Seen("nontrivial", fmt.Sprintf("%s|%s|%s|%s", run.Inv.FlagSet(), c.Kind, outcome, accepted))
	st.Seen("flagsets", run.Inv.FlagSet())
	st.Seen("kinds", c.Kind)
	st.Inc("n:kind:" + strings.SplitN(c.Kind, "/", 2)[0])
	st.Inc("n:outcome:" + outcome)
	if len(r.Pre.Diff(r.Post)) > 0 {
		st.Inc("n:runs_that_changed_the_tree")
	}
	for _, t := range r.Obs.Trace {
		// an injected open error on the output (or a temporary sibling of it), whatever call made it
		if t.Fault == "open_err" && filepath.Dir(t.Path) == filepath.Dir(run.Inv.OutPath) && !strings.HasSuffix(t.Path, ".log") {
			st.Inc("n:output_open_faults_fired")
		}
	}
	if run.Stdout != "" {
		st.Inc("fired:stdout:" + run.Stdout)
	}
	if run.Inv.Dry || outcome == "fail" {
		st.Inc("n:must_not_touch_output")
	}
	diff := r.Pre.Diff(r.Post)
	res.Log = fmt.Sprintf("C15 world=%s kind=%s flags=%s bin=%s status=%s diff=%v viol=%d", c.World.Digest(), c.Kind, run.Inv.FlagSet(), run.Bin, r.Obs.Status, diff, len(res.Viol))
	if len(st.Samples) == 0 {
		st.Samples = append(st.Samples, map[string]any{"mode": strings.SplitN(c.Kind, "/", 2)[0], "world": c.World.Name, "kind": c.Kind, "argv": run.Inv.Args(), "cwd": run.Inv.Cwd, "gofile": run.Inv.GoFile,
			"status": r.Obs.Status, "tree_diff": diff, "fired": r.Obs.Fired})
	}
	if c.Twin {
		// seam transparency: same step sequence with the plain binary
		root2, err := env.NewWorldDir(c.World, "c15t")
		if err == nil {
			steps2 := append([]Step(nil), c.Steps...)
			s2 := steps2[last]
			s2.Bin, s2.Plan = "plain", nil
			steps2[last] = s2
			rs2 := ExecSteps(env, root2, steps2, st)
			r2 := rs2[last]
			st.Inc("n:transparency_pairs")
			if r2.Obs != nil && (r2.Obs.Status != r.Obs.Status || string(r2.OutBytes) != string(r.OutBytes) || fmt.Sprint(r2.Pre.Diff(r2.Post)) != fmt.Sprint(diff)) {
				st.Inc("n:transparency_mismatch")
				st.Note("seam transparency mismatch in world %s kind %s: sim=%s plain=%s", c.World.Name, c.Kind, r.Obs.Status, r2.Obs.Status)
			}
			env.DropWorldDir(root2)
		}
	}
	return res
}

func shrinkC15(c C15Case) []C15Case {
	var out []C15Case
	last := len(c.Steps) - 1
	// drop a state step
	for i := 0; i < last; i++ {
		d := c
		d.Steps = append(append([]Step(nil), c.Steps[:i]...), c.Steps[i+1:]...)
		out = append(out, d)
	}
	run := c.Steps[last]
	// drop the plan / use the plain binary when no fault is needed
	if run.Bin == "sim" && run.Plan != nil && len(run.Plan.Faults) == 0 {
		d := c
		d.Steps = append([]Step(nil), c.Steps...)
		r2 := run
		r2.Bin, r2.Plan = "plain", nil
		d.Steps[last] = r2
		out = append(out, d)
	}
	// drop flags one at a time
	for _, f := range []string{"print", "log", "dry"} {
		iv := *run.Inv
		changed := false
		switch f {
		case "print":
			changed, iv.Print = iv.Print, false
		case "log":
			changed, iv.Log = iv.Log, false
		case "dry":
			changed, iv.Dry = iv.Dry, false
		}
		if changed {
			d := c
			d.Steps = append([]Step(nil), c.Steps...)
			r2 := run
			r2.Inv = &iv
			d.Steps[last] = r2
			out = append(out, d)
		}
	}
	if run.GMP != 0 {
		d := c
		d.Steps = append([]Step(nil), c.Steps...)
		r2 := run
		r2.GMP = 0
		d.Steps[last] = r2
		out = append(out, d)
	}
	return out
}

func runC15(cfg Config, args []string) int {
	start := time.Now()
	env, err := sim.Prepare(cfg.Repo)
	defer env.Cleanup()
	rep0 := &Report{Property: "C15", Level: "fault_enumeration", Cfg: cfg, Stats: NewStats(), Start: start, KnownHits: map[string]int{}}
	if err != nil {
		rep0.InfraErr = err
		return Finish(rep0)
	}
	if len(args) >= 2 && args[0] == "replay" {
		return ReplayCase("C15", args[1], func(c C15Case) CaseResult { return execC15(env, c) })
	}
	nFix, nSyn := cfg.N(5, 16), cfg.N(9, 44)
	worlds, err := BuildWorlds(cfg, "C15", nFix, nSyn, 35, false, 0)
	if err != nil {
		rep0.InfraErr = err
		return Finish(rep0)
	}
	pre := NewStats()
	canon, err := ComputeCanon(env, worlds, pre)
	if err != nil {
		rep0.InfraErr = err
		return Finish(rep0)
	}
	ws := &WorldSet{Worlds: worlds, Canon: canon}
	perFlagset := 3
	if cfg.Tier == "thorough" {
		perFlagset = 8
	}
	perWorld := 16 * perFlagset
	b := &Batch[C15Case]{Property: "C15", Level: "fault_enumeration", Cfg: cfg, Env: env, N: len(worlds) * perWorld,
		Gen:    func(i int) C15Case { return genC15(cfg, ws, i, perWorld) },
		Exec:   func(c C15Case) CaseResult { return execC15(env, c) },
		Shrink: shrinkC15,
		Rule: "one case = one fresh convergen process in a fresh world (fixture or synthetic, accepted or rejected), for every one of the 16 flag sets per world, " +
			"with a seeded output-path state / injected I/O fault; the whole world tree (module, outside/, elsewhere/, tmp/) is hashed before and after. " +
			"distinct_nontrivial counts distinct (flag set, state-or-fault kind incl. -out variant, run outcome, accepted/rejected world) tuples.",
		Assume: []string{"the frame is judged on the kernel's view of the scratch tree, which includes the run's HOME (go telemetry switched off beforehand) and TMPDIR; GOCACHE and GOMODCACHE of the go tool are outside the world and not part of the frame",
			"checks run as root: EACCES/EROFS/EMFILE are injected at the os facade, ENOENT/EISDIR are real"},
		Extra:    map[string]any{"components_real": componentsReal, "components_simulated": componentsSim, "seam": env.Seam, "simulated_time": "not applicable: convergen reads no clock; the facade clock was never read"},
		Required: []string{"n:outcome:ok", "n:outcome:fail", "n:must_not_touch_output"},
		Desired:  []string{"n:output_open_faults_fired", "fired:stdout:full"},
	}
	rep := RunBatch(b, start)
	rep.Stats.Merge(pre)
	return Finish(rep)
}
