package checks

import (
	"encoding/json"
	"fmt"
	"os"
	"sort"
	"strings"
	"sync/atomic"
	"time"

	"verifsim/internal/sim"
)

// CaseResult is what executing one case yields.
type CaseResult struct {
	Viol  []*Violation
	Log   string // one normalised event-log line (no scratch names, pids or times)
	Stats *Stats
	Infra error
}

// Batch describes a seeded batch of cases of one property.
type Batch[C any] struct {
	Property string
	Level    string
	Cfg      Config
	Env      *sim.Env
	N        int
	Gen      func(i int) C
	Exec     func(c C) CaseResult
	Shrink   func(c C) []C // candidate simpler cases, most aggressive first
	Rule     string
	Assume   []string
	Extra    map[string]any
	Required []string // counters that must be > 0, else the batch explored nothing (exit 2)
	// Desired: reach counters of particular fault kinds. A zero there does not make
	// the batch worthless (the tree may simply have changed HOW it does something);
	// it is reported on stdout and in the evidence, and the exit status stays what
	// the oracles say.
	Desired []string
	// Unwanted: counters of lost reach (worlds the tool refused although they are
	// well-formed). A non-zero value prints a REACH-WARNING too; never a verdict.
	Unwanted []string
}

// RunBatch executes the batch on all workers, folds results in index order,
// classifies violations against known-findings.json, minimises and writes
// replay files for unknown ones.
func RunBatch[C any](b *Batch[C], start time.Time) *Report {
	rep := &Report{Property: b.Property, Level: b.Level, Cfg: b.Cfg, Stats: NewStats(), KnownHits: map[string]int{},
		Rule: b.Rule, Assumptions: b.Assume, Extra: b.Extra, Start: start}
	known, err := LoadKnown(b.Cfg.Verif)
	if err != nil {
		rep.InfraErr = fmt.Errorf("known-findings.json: %w", err)
		return rep
	}
	var stop atomic.Bool
	noStop := os.Getenv("VERIF_NOSTOP") != ""
	workers := sim.Workers()
	if v := os.Getenv("VERIF_WORKERS"); v != "" {
		fmt.Sscanf(v, "%d", &workers)
	}
	cases := make([]C, b.N)
	results, done := sim.ParMap(b.N, workers, &stop, func(i int) CaseResult {
		c := b.Gen(i)
		cases[i] = c
		r := b.Exec(c)
		for _, v := range r.Viol {
			v.CaseIndex = i
			if known.Match(v) == nil && !noStop {
				stop.Store(true)
			}
		}
		if r.Infra != nil {
			stop.Store(true)
		}
		return r
	})
	var logLines []string
	type unk struct {
		v *Violation
		i int
	}
	var unknown []unk
	infraCount := 0
	for i := 0; i < b.N; i++ {
		if !done[i] {
			continue
		}
		r := results[i]
		rep.Stats.Merge(r.Stats)
		rep.Stats.Counters["evaluations"]++
		logLines = append(logLines, fmt.Sprintf("%d %s", i, r.Log))
		if r.Infra != nil {
			infraCount++
			if rep.InfraErr == nil {
				rep.InfraErr = fmt.Errorf("case %d: %w", i, r.Infra)
			}
		}
		for _, v := range r.Viol {
			if f := known.Match(v); f != nil {
				rep.KnownHits[f.What]++
				continue
			}
			unknown = append(unknown, unk{v, i})
		}
	}
	if noStop {
		// triage aid: every distinct signature with its count
		cnt := map[string]int{}
		for _, u := range unknown {
			b, _ := json.Marshal(u.v.Sig)
			cnt[u.v.Invariant+" "+string(b)]++
		}
		keys := make([]string, 0, len(cnt))
		for k := range cnt {
			keys = append(keys, k)
		}
		sort.Strings(keys)
		for _, k := range keys {
			fmt.Printf("TRIAGE %4d  %s\n", cnt[k], k)
		}
	}
	if p := os.Getenv("VERIF_EVENTLOG"); p != "" {
		os.WriteFile(p, []byte(strings.Join(logLines, "\n")+"\n"), 0o644)
	}
	if rep.InfraErr != nil {
		return rep
	}
	// report the lowest-index violation of each distinct invariant (max 3)
	sort.SliceStable(unknown, func(i, j int) bool { return unknown[i].i < unknown[j].i })
	seenInv := map[string]bool{}
	for _, u := range unknown {
		if seenInv[u.v.Invariant] || len(rep.Violations) >= 3 {
			continue
		}
		seenInv[u.v.Invariant] = true
		c := cases[u.i]
		v := u.v
		if b.Shrink != nil {
			c, v = minimise(b, known, c, v)
		}
		path, err := WriteReplay(b.Cfg, v, c, len(rep.Violations))
		if err != nil {
			rep.InfraErr = err
			return rep
		}
		rep.Violations = append(rep.Violations, v)
		rep.Replays = append(rep.Replays, path)
	}
	for _, k := range b.Desired {
		if rep.Stats.Counters[k] == 0 {
			fmt.Printf("REACH-WARNING property=%s %q was never reached in this batch (see evidence notes)\n", b.Property, k)
			rep.Stats.Note("reach warning: %q stayed at zero: the fault or state it counts never occurred in this batch; the oracles' verdict covers what did occur", k)
		}
	}
	for _, k := range b.Unwanted {
		if n := rep.Stats.Counters[k]; n > 0 {
			fmt.Printf("REACH-WARNING property=%s %q = %d: that much of the workload was not explored (see evidence notes)\n", b.Property, k, n)
		}
	}
	if len(rep.Violations) == 0 {
		for _, k := range b.Required {
			if rep.Stats.Counters[k] == 0 {
				rep.InfraErr = fmt.Errorf("required class %q was never reached: nothing explored is not 'held'", k)
				break
			}
		}
	}
	return rep
}

// minimise greedily replaces the case by simpler candidates while a violation
// of the same invariant (not covered by a known finding) persists. Bounded in
// time; the result is re-executed once more by the caller's replay path.
func minimise[C any](b *Batch[C], known *KnownFile, c C, v *Violation) (C, *Violation) {
	deadline := time.Now().Add(150 * time.Second)
	if b.Cfg.Tier == "quick" {
		deadline = time.Now().Add(60 * time.Second)
	}
	for round := 0; round < 40 && time.Now().Before(deadline); round++ {
		cands := b.Shrink(c)
		if len(cands) == 0 {
			break
		}
		// try candidates in parallel, take the first (in order) that still fails
		type out struct {
			v *Violation
		}
		var stop atomic.Bool
		res, done := sim.ParMap(len(cands), sim.Workers(), &stop, func(i int) out {
			r := b.Exec(cands[i])
			for _, nv := range r.Viol {
				if nv.Invariant == v.Invariant && known.Match(nv) == nil {
					nv.CaseIndex = v.CaseIndex
					return out{nv}
				}
			}
			return out{}
		})
		progressed := false
		for i := range cands {
			if done[i] && res[i].v != nil {
				c, v = cands[i], res[i].v
				progressed = true
				break
			}
		}
		if !progressed {
			break
		}
	}
	return c, v
}

// ReplayCase re-executes a stored case and reports whether a violation of the
// same invariant occurs again.
func ReplayCase[C any](property, path string, exec func(c C) CaseResult) int {
	rf, err := LoadReplay(path)
	if err != nil {
		fmt.Printf("INFRASTRUCTURE: %v\n", err)
		return 2
	}
	var c C
	if err := json.Unmarshal(rf.Case, &c); err != nil {
		fmt.Printf("INFRASTRUCTURE: bad case in replay file: %v\n", err)
		return 2
	}
	r := exec(c)
	if r.Infra != nil {
		fmt.Printf("INFRASTRUCTURE: %v\n", r.Infra)
		return 2
	}
	for _, v := range r.Viol {
		if v.Invariant == rf.Invariant {
			fmt.Printf("VIOLATION property=%s replay=%s\n", property, path)
			fmt.Printf("  invariant=%s %s\n", v.Invariant, v.Summary)
			if v.Detail != "" {
				fmt.Println(v.Detail)
			}
			return 1
		}
	}
	fmt.Printf("NOT-REPRODUCED property=%s replay=%s (invariant %s did not fail)\n", property, path, rf.Invariant)
	for _, v := range r.Viol {
		fmt.Printf("  other violation: %s %s\n", v.Invariant, v.Summary)
	}
	return 0
}
