package checks

import (
	"encoding/json"
	"fmt"
	"os"
	"path/filepath"
	"sort"
	"strconv"
	"strings"
	"sync"
	"time"

	"verifsim/internal/sim"
)

// Config is what the command line and environment give every check.
type Config struct {
	Seed   int64
	Tier   string // "quick" or "thorough"
	Repo   string
	Verif  string
	Budget float64 // scale factor for case counts (VERIF_SCALE), default 1
	Only   string  // sub-selection for debugging
}

func envOr(k, d string) string {
	if v := os.Getenv(k); v != "" {
		return v
	}
	return d
}

func LoadConfig(tier string) Config {
	c := Config{Tier: tier, Repo: envOr("VERIF_REPO", "/repo"), Verif: envOr("VERIF_ROOT", "/verif"), Budget: 1}
	c.Seed, _ = strconv.ParseInt(envOr("VERIF_SEED", "1"), 10, 64)
	if t := os.Getenv("VERIF_TIER"); t != "" && tier == "" {
		c.Tier = t
	}
	if c.Tier == "" {
		c.Tier = "quick"
	}
	if s := os.Getenv("VERIF_SCALE"); s != "" {
		if f, err := strconv.ParseFloat(s, 64); err == nil && f > 0 {
			c.Budget = f
		}
	}
	c.Only = os.Getenv("VERIF_ONLY")
	return c
}

func (c Config) N(quick, thorough int) int {
	n := quick
	if c.Tier == "thorough" {
		n = thorough
	}
	n = int(float64(n)*c.Budget + 0.5)
	if n < 1 {
		n = 1
	}
	return n
}

// Violation is one oracle failure, with enough to classify and replay it.
type Violation struct {
	Property  string            `json:"property"`
	Invariant string            `json:"invariant"`
	Sig       map[string]string `json:"signature"`
	Summary   string            `json:"summary"`
	Detail    string            `json:"detail,omitempty"`
	CaseIndex int               `json:"case_index"`
}

// Finding is an entry of known-findings.json.
type Finding struct {
	Property  string            `json:"property"`
	Invariant string            `json:"invariant"`
	Match     map[string]string `json:"match"`
	What      string            `json:"what"`
}

type KnownFile struct {
	Comment  string    `json:"_comment,omitempty"`
	Findings []Finding `json:"findings"`
	Fixed    []string  `json:"fixed"`
}

func LoadKnown(verif string) (*KnownFile, error) {
	k := &KnownFile{}
	b, err := os.ReadFile(filepath.Join(verif, "known-findings.json"))
	if err != nil {
		if os.IsNotExist(err) {
			return k, nil
		}
		return nil, err
	}
	if err := json.Unmarshal(b, k); err != nil {
		return nil, err
	}
	return k, nil
}

// Match returns the known finding that covers v, if any. A finding covers a
// violation only if the invariant is the same and every key of its match
// predicate has the same value in the violation's signature, so that a
// different violation of the same property is still reported.
func (k *KnownFile) Match(v *Violation) *Finding {
	for i := range k.Findings {
		f := &k.Findings[i]
		if f.Property != v.Property || f.Invariant != v.Invariant {
			continue
		}
		ok := true
		for key, want := range f.Match {
			if v.Sig[key] != want {
				ok = false
				break
			}
		}
		if ok {
			return f
		}
	}
	return nil
}

// Stats collects reach counters; safe for concurrent use.
type Stats struct {
	mu       sync.Mutex
	Counters map[string]int
	Distinct map[string]map[string]bool
	Samples  []any
	Notes    []string
	maxSamp  int
}

func NewStats() *Stats {
	return &Stats{Counters: map[string]int{}, Distinct: map[string]map[string]bool{}, maxSamp: 8}
}

func (s *Stats) Inc(k string)        { s.Add(k, 1) }
func (s *Stats) Add(k string, n int) { s.mu.Lock(); s.Counters[k] += n; s.mu.Unlock() }
func (s *Stats) Get(k string) int    { s.mu.Lock(); defer s.mu.Unlock(); return s.Counters[k] }
func (s *Stats) Seen(set, key string) {
	s.mu.Lock()
	m := s.Distinct[set]
	if m == nil {
		m = map[string]bool{}
		s.Distinct[set] = m
	}
	m[key] = true
	s.mu.Unlock()
}
func (s *Stats) NDistinct(set string) int {
	s.mu.Lock()
	defer s.mu.Unlock()
	return len(s.Distinct[set])
}
func (s *Stats) Note(format string, a ...any) {
	s.mu.Lock()
	if len(s.Notes) < 40 {
		s.Notes = append(s.Notes, fmt.Sprintf(format, a...))
	}
	s.mu.Unlock()
}

// Merge folds another Stats in (used to fold per-case stats in index order).
func (s *Stats) Merge(o *Stats) {
	if o == nil {
		return
	}
	for k, v := range o.Counters {
		s.Counters[k] += v
	}
	for set, m := range o.Distinct {
		if s.Distinct[set] == nil {
			s.Distinct[set] = map[string]bool{}
		}
		for k := range m {
			s.Distinct[set][k] = true
		}
	}
	for _, x := range o.Samples {
		// at most two samples per "mode" (when a sample names one), eight in all
		if m, ok := x.(map[string]any); ok {
			if mode, ok := m["mode"].(string); ok {
				n := 0
				for _, y := range s.Samples {
					if ym, ok := y.(map[string]any); ok && ym["mode"] == mode {
						n++
					}
				}
				if n >= 2 {
					continue
				}
			}
		}
		if len(s.Samples) < s.maxSamp {
			s.Samples = append(s.Samples, x)
		}
	}
	for _, n := range o.Notes {
		if len(s.Notes) < 40 {
			s.Notes = append(s.Notes, n)
		}
	}
}

func (s *Stats) prefixed(prefix string) map[string]int {
	out := map[string]int{}
	for k, v := range s.Counters {
		if strings.HasPrefix(k, prefix) {
			out[strings.TrimPrefix(k, prefix)] = v
		}
	}
	return out
}

// Report is what a check hands to finish().
type Report struct {
	Property    string
	Level       string
	Cfg         Config
	Stats       *Stats
	Violations  []*Violation // unknown ones, lowest case index first
	Known       []*Finding   // known findings that were hit
	KnownHits   map[string]int
	Replays     []string
	Rule        string
	Assumptions []string
	Extra       map[string]any
	Start       time.Time
	Exhaustive  bool
	InfraErr    error
}

var componentsReal = []string{
	"convergen main/config/runner/parser/builder/generator/option/util/logger compiled from /repo's working tree",
	"golang.org/x/tools go/packages and imports", "the `go list` subprocess", "go/format", "flag", "the kernel file system under the scratch directory",
}

var componentsSim = []string{
	"marker entropy (gonanoid.BytesGenerator)", "failure/crash behaviour of os.WriteFile/OpenFile/Create/CreateTemp/Rename/Link/Stat (import-level facade)", "arrival of SIGINT/SIGTERM/SIGHUP at a chosen intercepted call",
	"clock (time.Now/Since/Until/Sleep) and pid/hostname values", "process environment, cwd, argv",
}

// WriteEvidence writes /verif/evidence/<id>.json.
func WriteEvidence(r *Report) error {
	if os.Getenv("VERIF_NO_EVIDENCE") != "" {
		return nil // self-test runs must not overwrite the evidence of real runs
	}
	wall := time.Since(r.Start).Seconds()
	st := r.Stats
	cov := map[string]any{
		"evaluations":         st.Counters["evaluations"],
		"distinct_nontrivial": st.NDistinct("nontrivial"),
		"rule":                r.Rule,
		"samples":             st.Samples,
		"exhaustive":          r.Exhaustive,
		"simulated_runs":      st.Counters["runs"],
		"fault_kinds_fired":   st.prefixed("fired:"),
		"run_status_counts":   st.prefixed("status:"),
		"counters":            st.prefixed("n:"),
		"known_findings_hit":  r.KnownHits,
		"notes":               st.Notes,
	}
	if wall > 0 {
		cov["simulated_runs_per_hour"] = int(float64(st.Counters["runs"]) / wall * 3600)
		cov["seeds_per_hour"] = fmt.Sprintf("%.1f", 3600/wall)
	}
	dm := map[string]int{}
	for set := range st.Distinct {
		dm[set] = st.NDistinct(set)
	}
	cov["distinct_by_measure"] = dm
	for k, v := range r.Extra {
		cov[k] = v
	}
	if len(st.Samples) == 0 {
		cov["samples"] = []any{"(no case was executed)"}
	}
	ev := map[string]any{
		"property_id": r.Property,
		"tier":        r.Cfg.Tier,
		"seed":        r.Cfg.Seed,
		"level":       r.Level,
		"coverage":    cov,
		"assumptions": r.Assumptions,
		"wall_s":      wall,
		"violations":  len(r.Violations),
	}
	b, err := json.MarshalIndent(ev, "", " ")
	if err != nil {
		return err
	}
	dir := filepath.Join(r.Cfg.Verif, "evidence")
	os.MkdirAll(dir, 0o755)
	return os.WriteFile(filepath.Join(dir, r.Property+".json"), append(b, '\n'), 0o644)
}

// Finish prints the verdict lines, writes the evidence and returns the exit code.
func Finish(r *Report) int {
	if r.InfraErr != nil {
		fmt.Printf("INFRASTRUCTURE: property=%s %v\n", r.Property, r.InfraErr)
		r.Stats.Note("infrastructure error: %v", r.InfraErr)
		WriteEvidence(r)
		return 2
	}
	keys := make([]string, 0, len(r.KnownHits))
	for k := range r.KnownHits {
		keys = append(keys, k)
	}
	sort.Strings(keys)
	for _, k := range keys {
		fmt.Printf("KNOWN-FINDING: property=%s %s (hit %d times)\n", r.Property, k, r.KnownHits[k])
	}
	if err := WriteEvidence(r); err != nil {
		fmt.Printf("INFRASTRUCTURE: cannot write evidence: %v\n", err)
		return 2
	}
	if len(r.Violations) > 0 {
		for i, v := range r.Violations {
			rp := ""
			if i < len(r.Replays) {
				rp = r.Replays[i]
			}
			fmt.Printf("VIOLATION property=%s replay=%s\n", r.Property, rp)
			fmt.Printf("  invariant=%s case=%d %s\n", v.Invariant, v.CaseIndex, v.Summary)
		}
		return 1
	}
	fmt.Printf("OK property=%s tier=%s seed=%d evaluations=%d runs=%d wall=%.0fs\n", r.Property, r.Cfg.Tier, r.Cfg.Seed,
		r.Stats.Counters["evaluations"], r.Stats.Counters["runs"], time.Since(r.Start).Seconds())
	return 0
}

// ReplayFile is the on-disk form of a (minimised) failing case.
type ReplayFile struct {
	Property  string          `json:"property"`
	Invariant string          `json:"invariant"`
	Seed      int64           `json:"seed"`
	Violation *Violation      `json:"violation"`
	Case      json.RawMessage `json:"case"`
	Note      string          `json:"note,omitempty"`
}

func WriteReplay(cfg Config, v *Violation, c any, n int) (string, error) {
	cb, err := json.MarshalIndent(c, "", " ")
	if err != nil {
		return "", err
	}
	rf := ReplayFile{Property: v.Property, Invariant: v.Invariant, Seed: cfg.Seed, Violation: v, Case: cb,
		Note: "replay with: bin/check " + v.Property + " replay <this file>"}
	b, _ := json.MarshalIndent(rf, "", " ")
	dir := filepath.Join(cfg.Verif, "replays")
	os.MkdirAll(dir, 0o755)
	p := filepath.Join(dir, fmt.Sprintf("%s-%d-%d.json", v.Property, cfg.Seed, n))
	return p, os.WriteFile(p, append(b, '\n'), 0o644)
}

func LoadReplay(path string) (*ReplayFile, error) {
	b, err := os.ReadFile(path)
	if err != nil {
		return nil, err
	}
	rf := &ReplayFile{}
	return rf, json.Unmarshal(b, rf)
}

func recordObs(st *Stats, o *sim.Observation) {
	st.Inc("runs")
	st.Inc("status:" + statusClass(o.Status))
	for _, f := range o.Fired {
		st.Inc("fired:" + f)
	}
}

func statusClass(s string) string {
	if strings.HasPrefix(s, "starterr") {
		return "starterr"
	}
	return s
}

func clip(b []byte, n int) string {
	s := string(b)
	if len(s) > n {
		return s[:n] + fmt.Sprintf("...(+%d bytes)", len(s)-n)
	}
	return s
}
