package checks

import (
	"bytes"
	"fmt"
	"path/filepath"
	"sort"
	"strings"
	"time"

	"verifsim/internal/sim"
)

// C13 — output is a deterministic function of the sources and flags.
// A case is a group of runs over the same sources with the same flags in which
// the simulator varies everything the statement says must not matter.

type C13Ctx struct {
	Dims      map[string]string `json:"dims"` // human-readable description of every varied dimension
	Inv       Invocation        `json:"inv"`
	Bin       string            `json:"bin"`
	Plan      *sim.Plan         `json:"plan,omitempty"`
	Env       []string          `json:"env,omitempty"`
	GMP       int               `json:"gomaxprocs"`
	Touch     bool              `json:"touch,omitempty"`      // rewrite the source files (new mtimes/inodes, same bytes)
	KeepPrior bool              `json:"keep_prior,omitempty"` // leave the previous run's output in place
	// WarmHome: HOME is the one earlier runs (incl. the pre-history) used; else a fresh one
	WarmHome bool `json:"warm_home,omitempty"`
	// AlterPrior: leave the previous run's output in place but change its content
	// without changing its length (one byte in the middle) - what sits at the
	// output path is part of the environment that must not matter
	AlterPrior bool `json:"alter_prior,omitempty"`
	// StalePrior: leave the previous run's output in place with its import block
	// naming the package's former location (a valid older result; only in worlds
	// that have a second package of the same name)
	StalePrior bool `json:"stale_prior,omitempty"`
}

type C13Case struct {
	World *sim.WorldSpec `json:"world"`
	Ctxs  []C13Ctx       `json:"ctxs"`
	Reps  int            `json:"reps,omitempty"` // replays of the whole group (map-order sampling)
	// Pre: what happened in this directory and this HOME before the group: one run
	// over OLDER sources of the imported packages (these files, then restored),
	// leaving its output in place and whatever it keeps under HOME. The first
	// context of the group then runs with that HOME and that leftover.
	Pre map[string]string `json:"pre_history_older_files,omitempty"`
	// KilledAt > 0: right before context number KilledAt an earlier run of the same
	// command line is interrupted while the package is being loaded (SIGTERM with
	// the default disposition: no deferred function runs). Whatever such a run
	// leaves behind is environment for the contexts after it; it is not compared.
	KilledAt int `json:"killed_run_before_ctx,omitempty"`
}

var clockInstants = []int64{0, 1, 951782400 /*2000-02-29*/, 2147483647 /*2038-01-19*/, 2147483648, 1700000000, 4102444800 /*2100*/, 253402300799 /*9999-12-31*/, 1234567890}

func genC13(cfg Config, ws *WorldSet, i, nctx int) C13Case {
	wi := i % len(ws.Worlds)
	world := ws.Worlds[wi]
	r := sim.Derive(cfg.Seed, "C13", "case", i)
	setup := "{W}/" + world.Setup
	// the flags are the same for the whole group
	fl := r.Intn(6)
	var siblings []string
	for p := range world.Files {
		if filepath.Dir(p) == filepath.Dir(world.Setup) && strings.HasSuffix(p, ".go") {
			siblings = append(siblings, filepath.Base(p))
		}
	}
	sort.Strings(siblings)
	c := C13Case{World: world}
	// a third of the synthetic groups have a pre-history on older imported sources
	if _, ok := world.Files["mod/domain/domain.go"]; ok && r.Chance(1, 2) {
		c.Pre = map[string]string{}
		for _, f := range []string{"mod/domain/domain.go", "mod/model/model.go"} {
			c.Pre[f] = strings.ReplaceAll(world.Files[f], " struct {\n", " struct {\n\tZzz int\n")
		}
	}
	if kr := sim.Derive(cfg.Seed, "C13", "killed", i); nctx > 2 && kr.Chance(1, 2) {
		c.KilledAt = 1 + kr.Intn(nctx-1)
	}
	for j := 0; j < nctx; j++ {
		x := C13Ctx{Dims: map[string]string{}}
		form := sim.Pick(r, []string{"rel-pkgdir", "dot-rel-pkgdir", "rel-modroot", "dotdot", "abs", "abs-modroot", "gofile", "gofile-overridden", "symlink-pkgdir"})
		if j == 0 {
			form = "rel-pkgdir"
		}
		cwd, in, gofile := InputForm(form, setup)
		x.Dims["input-form"] = form
		x.Inv = Invocation{Cwd: cwd, Input: in, GoFile: gofile, FlagOrder: r.Intn(2)}
		switch fl {
		case 0, 1:
		case 2:
			x.Inv.Dry, x.Inv.Print = true, true
		case 3:
			x.Inv.Log = true
		case 4:
			x.Inv.Print = true
		case 5:
			x.Inv.Dry = true
		}
		x.Inv.OutPath = ResolveOut(cwd, in, gofile, "")
		x.GMP = sim.Pick(r, []int{1, 2, 4, 16})
		x.Dims["gomaxprocs"] = fmt.Sprint(x.GMP)
		if j > 0 && r.Chance(1, 4) {
			x.Bin = "plain"
			x.Dims["binary"] = "plain (crypto/rand marker, real clock and pid)"
		} else {
			x.Bin = "sim"
			p := &sim.Plan{Markers: genMarkers(r, 4), ClockSet: true, ClockStart: sim.Pick(r, clockInstants), ClockStepNs: int64(sim.Pick(r, []int{1, 1000, 1000000, 999999999})),
				Pid: r.Range(2, 4194304), Hostname: sim.Pick(r, []string{"build-01", "localhost", "ci-runner-7f9c", "x"})}
			if r.Chance(2, 3) {
				p.StatDelaysUs = map[string]int{}
				for _, s := range siblings {
					if r.Bool() {
						p.StatDelaysUs[s] = r.Range(50, 4000)
					}
				}
			}
			if j > 0 && r.Chance(1, 6) {
				// everything else took longer than any timeout the tree may have armed
				p.TimersEarly = true
				x.Dims["timers"] = "every timeout, deadline and timer fires at once"
			}
			x.Plan = p
			x.Dims["marker"] = p.Markers[0]
			x.Dims["clock"] = fmt.Sprint(p.ClockStart)
			x.Dims["pid"] = fmt.Sprint(p.Pid)
			x.Dims["stat-delays"] = fmt.Sprint(p.StatDelaysUs)
		}
		if r.Chance(1, 2) {
			tz := sim.Pick(r, []string{"UTC", "Asia/Tokyo", "America/Los_Angeles", "Pacific/Kiritimati", ":/nonexistent"})
			x.Env = append(x.Env, "TZ="+tz)
			x.Dims["TZ"] = tz
		}
		if r.Chance(1, 2) {
			l := sim.Pick(r, []string{"C", "ja_JP.UTF-8", "tr_TR.UTF-8", "POSIX"})
			x.Env = append(x.Env, "LANG="+l, "LC_ALL="+l)
			x.Dims["LANG"] = l
		}
		if r.Chance(1, 3) {
			x.Env = append(x.Env, "VERIF_JUNK_"+fmt.Sprint(r.Intn(1000))+"="+string(sim.Pick(r, []string{"1", "", "a b c", "\\n"})), "CONVERGEN_DEBUG=1", "NO_COLOR=1",
				"GOFLAGS="+sim.Pick(r, []string{"-tags=integration", "-trimpath", ""}), "XDG_CACHE_HOME={W}/tmp/xdg", "USER="+sim.Pick(r, []string{"alice", "root", "ci"}))
			x.Dims["env-noise"] = "yes"
		}
		if r.Chance(1, 3) {
			// what `go generate` exports besides GOFILE: the package of the file holding
			// the directive (which need not be the setup file's), its line, the dollar sign
			gp := sim.Pick(r, []string{pkgNameOf(world.Files[world.Setup]), "main", "tools", "otherpkg"})
			x.Env = append(x.Env, "GOPACKAGE="+gp, fmt.Sprintf("GOLINE=%d", r.Range(1, 400)), "DOLLAR=$", "GOARCH=amd64", "GOOS=linux")
			x.Dims["go-generate-env"] = "GOPACKAGE=" + gp
		}
		if r.Chance(1, 3) {
			x.Env = append(x.Env, "TMPDIR={W}/tmp/alt")
			x.Dims["TMPDIR"] = "alt"
		}
		if r.Chance(1, 3) {
			x.Touch = true
			x.Dims["mtimes"] = "touched"
		}
		x.WarmHome = r.Bool()
		if c.Pre != nil && j == 0 {
			x.WarmHome, x.KeepPrior = true, true
			x.Dims["prior-output"] = "left by a run over older imported sources"
		}
		x.Dims["HOME"] = map[bool]string{true: "used by earlier runs", false: "fresh"}[x.WarmHome]
		if j > 0 && r.Chance(1, 3) {
			x.KeepPrior = true
			x.Dims["prior-output"] = "kept"
			switch r.Intn(3) {
			case 0:
				x.AlterPrior = true
				x.Dims["prior-output"] = "kept, one byte altered (same length)"
			case 1:
				x.StalePrior = true
				x.Dims["prior-output"] = "kept, imports as of the package's former location"
			}
		}
		c.Ctxs = append(c.Ctxs, x)
	}
	// in the worlds that have the package twin, one context of every group finds the
	// valid-but-stale older result (not left to the draw: a family of defects shows
	// only there)
	if _, twin := c.World.Files["mod/legacy/hooks/hooks.go"]; twin && len(c.Ctxs) > 1 {
		has := false
		for _, x := range c.Ctxs {
			has = has || x.StalePrior
		}
		if !has {
			x := &c.Ctxs[1]
			x.KeepPrior, x.AlterPrior, x.StalePrior = true, false, true
			x.Dims["prior-output"] = "kept, imports as of the package's former location"
		}
	}
	return c
}

func normDiag(stderr []byte, root string, iv *Invocation, setupAbs string) string {
	s := sim.Unsubst(string(stderr), root)
	s = strings.ReplaceAll(s, "{W}/modlink/", "{W}/mod/") // the symlinked spelling of the module root
	s = strings.ReplaceAll(s, setupAbs, "<IN>")
	s = strings.ReplaceAll(s, strings.Replace(iv.OutPath, "{W}/modlink/", "{W}/mod/", 1), "<OUT>")
	s = strings.ReplaceAll(s, iv.OutPath, "<OUT>")
	lit := iv.Input
	if lit == "" {
		lit = iv.GoFile
	}
	if lit != "" && !strings.HasPrefix(lit, "{W}") {
		// a literal relative spelling echoed by the tool (the absolute ones are already tokens)
		s = replaceWord(s, lit, "<IN>")
		s = replaceWord(s, DefaultOut(lit), "<OUT>")
	}
	return s
}

// replaceWord replaces lit where it is not the tail of a longer path.
func replaceWord(s, lit, tok string) string {
	var b strings.Builder
	for {
		i := strings.Index(s, lit)
		if i < 0 {
			b.WriteString(s)
			return b.String()
		}
		if i > 0 && (s[i-1] == '/' || s[i-1] == '>' || s[i-1] == '_' || s[i-1] == '-' || s[i-1] == '.' ||
			(s[i-1] >= '0' && s[i-1] <= '9') || (s[i-1] >= 'a' && s[i-1] <= 'z') || (s[i-1] >= 'A' && s[i-1] <= 'Z')) {
			// the tail of a longer path or file name (embed_a.go for the input a.go): not a spelling of the input
			b.WriteString(s[:i+len(lit)])
		} else {
			b.WriteString(s[:i])
			b.WriteString(tok)
		}
		s = s[i+len(lit):]
	}
}

type c13obs struct {
	status string
	out    []byte
	hasOut bool
	stdout []byte
	diag   string
	rawErr []byte
}

func execC13(env *sim.Env, c C13Case) CaseResult {
	st := NewStats()
	res := CaseResult{Stats: st}
	root, err := env.NewWorldDir(c.World, "c13")
	if err != nil {
		res.Infra = err
		return res
	}
	defer env.DropWorldDir(root)
	setupAbs := "{W}/" + c.World.Setup
	ExecSteps(env, root, []Step{{Op: "symlink", Path: "{W}/modlink", Data: []byte("{W}/mod")}}, nil)
	if c.Pre != nil {
		var pre, post []Step
		for f, older := range c.Pre {
			pre = append(pre, Step{Op: "write", Path: "{W}/" + f, Data: []byte(older)})
			post = append(post, Step{Op: "write", Path: "{W}/" + f, Data: []byte(c.World.Files[f])})
		}
		iv := SetupInv(c.World)
		pre = append(pre, Step{Op: "run", Inv: &iv, Bin: "plain", HomeRel: "home-warm"})
		rs := ExecSteps(env, root, append(pre, post...), st)
		st.Inc("n:pre_histories")
		if r := rs[len(pre)-1]; r.Err != nil {
			res.Infra = fmt.Errorf("pre-history run: %v", r.Err)
			return res
		}
	}
	reps := c.Reps
	if reps < 1 {
		reps = 1
	}
	var first *c13obs
	var firstCtx *C13Ctx
	var logParts []string
	for rep := 0; rep < reps && len(res.Viol) == 0; rep++ {
		for j := range c.Ctxs {
			x := &c.Ctxs[j]
			var pre []Step
			if !x.KeepPrior {
				pre = append(pre, Step{Op: "remove", Path: x.Inv.OutPath}, Step{Op: "remove", Path: logPathFor(x.Inv.OutPath)})
			}
			if x.KeepPrior && x.AlterPrior {
				if old, ok := sim.ReadMaybe(w(root, x.Inv.OutPath)); ok && len(old) > 8 {
					nb := append([]byte(nil), old...)
					k := len(nb) / 2
					if nb[k] == 'x' {
						nb[k] = 'y'
					} else {
						nb[k] = 'x'
					}
					pre = append(pre, Step{Op: "write", Path: x.Inv.OutPath, Data: nb})
				}
			}
			if x.KeepPrior && x.StalePrior {
				if old, ok := sim.ReadMaybe(w(root, x.Inv.OutPath)); ok {
					if alt := staleImports(c.World, old); alt != nil {
						pre = append(pre, Step{Op: "write", Path: x.Inv.OutPath, Data: alt})
					}
				}
			}
			pre = append(pre, Step{Op: "mkdir", Path: "{W}/tmp/alt"})
			if x.Touch {
				for p := range c.World.Files {
					if strings.HasSuffix(p, ".go") && strings.HasPrefix(p, "mod/") {
						pre = append(pre, Step{Op: "touch", Path: "{W}/" + p})
					}
				}
			}
			ExecSteps(env, root, pre, nil)
			if c.KilledAt == j && j > 0 && rep == 0 {
				kiv := c.Ctxs[0].Inv
				kplan := &sim.Plan{Markers: genMarkers(sim.Derive(1, "C13", "killed-markers"), 4),
					Faults: []sim.Fault{{Op: "Stat", Path: setupAbs, Nth: 2, Kind: "sigterm"}}}
				ks := ExecSteps(env, root, []Step{{Op: "run", Inv: &kiv, Bin: "sim", Plan: kplan, Env: c.Ctxs[0].Env, HomeRel: "home-warm"}}, st)
				if ks[0].Obs != nil && strings.HasPrefix(ks[0].Obs.Status, "signal:") {
					st.Inc("n:runs_interrupted_while_loading")
				}
			}
			run := Step{Op: "run", Inv: &x.Inv, Bin: x.Bin, Plan: x.Plan, Env: x.Env, GMP: x.GMP, HomeRel: "home-warm"}
			if !x.WarmHome {
				run.HomeRel = fmt.Sprintf("home-fresh-%d-%d", rep, j)
			}
			rs := ExecSteps(env, root, []Step{run}, st)
			r := &rs[0]
			if r.Err != nil || r.Obs == nil || strings.HasPrefix(r.Obs.Status, "starterr") {
				res.Infra = fmt.Errorf("ctx %d: %v", j, r.Err)
				return res
			}
			// stdout is compared byte for byte, except that the absolute location of the
			// world and the symlinked spelling of the module root are tokens (the tool
			// prints a few messages with file positions there, e.g. for reserved notations)
			stdoutN := []byte(strings.ReplaceAll(sim.Unsubst(string(r.Obs.Stdout), root), "{W}/modlink/", "{W}/mod/"))
			o := &c13obs{status: r.Obs.Status, out: r.OutBytes, hasOut: r.OutExists, stdout: stdoutN, rawErr: r.Obs.Stderr}
			o.diag = normDiag(r.Obs.Stderr, root, &x.Inv, setupAbs)
			st.Inc("n:compared_runs")
			for k := range x.Dims {
				st.Inc("n:dim:" + k)
			}
			st.Seen("nontrivial", fmt.Sprintf("%s|%s|%s|%d|%v|%v", c.World.Digest(), x.Dims["input-form"], x.Bin, x.GMP, x.Touch, x.KeepPrior))
			st.Seen("interleaving-steering", fmt.Sprintf("%d|%s", x.GMP, x.Dims["stat-delays"]))
			if x.Plan != nil && x.Plan.ClockSet {
				st.Seen("clock-instants", fmt.Sprint(x.Plan.ClockStart))
			}
			for _, t := range r.Obs.Trace {
				if t.Op == "time.Now" {
					st.Inc("n:simulated_clock_reads")
				}
				if t.Op == "Getpid" {
					st.Inc("n:simulated_pid_reads")
				}
				if t.Op == "marker" {
					st.Inc("n:simulated_markers_used")
				}
			}
			logParts = append(logParts, fmt.Sprintf("%s/%s/%s", o.status, sim.HashBytes(o.out), sim.HashBytes(o.stdout)))
			if j == 0 && rep == 0 && len(r.Obs.Stderr) == 0 && o.status == "exit:0" {
				st.Inc("n:groups_free_of_diagnostics")
			}
			if first == nil {
				first, firstCtx = o, x
				continue
			}
			var diff, detail string
			switch {
			case o.status != first.status:
				diff = "status"
				detail = fmt.Sprintf("%s vs %s", first.status, o.status)
			case !x.Inv.Dry && (o.hasOut != first.hasOut || !bytes.Equal(o.out, first.out)):
				diff = "output"
				detail = firstDiff(first.out, o.out)
			case !bytes.Equal(o.stdout, first.stdout):
				diff = "stdout"
				detail = firstDiff(first.stdout, o.stdout)
			case o.diag != first.diag:
				diff = "diagnostics"
				detail = firstDiff([]byte(first.diag), []byte(o.diag))
			}
			if diff != "" {
				var dims []string
				keys := map[string]bool{}
				for k := range x.Dims {
					keys[k] = true
				}
				for k := range firstCtx.Dims {
					keys[k] = true
				}
				for k := range keys {
					if x.Dims[k] != firstCtx.Dims[k] {
						dims = append(dims, k)
					}
				}
				sort.Strings(dims)
				res.Viol = append(res.Viol, &Violation{Property: "C13", Invariant: "C13/same-sources-same-result",
					Sig:     map[string]string{"diff": diff, "dims": strings.Join(dims, ",")},
					Summary: fmt.Sprintf("two runs over the same sources and flags (%s) differ in %s; varied: %s", x.Inv.FlagSet(), diff, strings.Join(dims, ",")),
					Detail:  detail})
				break
			}
		}
	}
	if len(st.Samples) == 0 && len(c.Ctxs) > 1 {
		var ds []map[string]string
		for _, x := range c.Ctxs {
			ds = append(ds, x.Dims)
		}
		st.Samples = append(st.Samples, map[string]any{"world": c.World.Name, "flags": c.Ctxs[0].Inv.FlagSet(), "contexts": ds, "status": first.status, "out_hash": sim.HashBytes(first.out)})
	}
	res.Log = fmt.Sprintf("C13 world=%s %s viol=%d", c.World.Digest(), strings.Join(logParts, " "), len(res.Viol))
	return res
}

func firstDiff(a, b []byte) string {
	n := len(a)
	if len(b) < n {
		n = len(b)
	}
	i := 0
	for i < n && a[i] == b[i] {
		i++
	}
	lo := i - 60
	if lo < 0 {
		lo = 0
	}
	ha, hb := i+100, i+100
	if ha > len(a) {
		ha = len(a)
	}
	if hb > len(b) {
		hb = len(b)
	}
	return fmt.Sprintf("first difference at byte %d (lengths %d / %d)\n--- first run:\n%s\n--- other run:\n%s", i, len(a), len(b), a[lo:ha], b[lo:hb])
}

func shrinkC13(c C13Case) []C13Case {
	var out []C13Case
	n := len(c.Ctxs)
	if n > 2 {
		// keep the first and one other
		for j := 1; j < n; j++ {
			d := c
			d.Ctxs = []C13Ctx{c.Ctxs[0], c.Ctxs[j]}
			out = append(out, d)
		}
		return out
	}
	if n < 2 {
		return nil
	}
	// make the second context more like the first, one dimension at a time
	a, b := c.Ctxs[0], c.Ctxs[1]
	try := func(f func(x *C13Ctx)) {
		nb := b
		nb.Dims = map[string]string{}
		for k, v := range b.Dims {
			nb.Dims[k] = v
		}
		f(&nb)
		d := c
		d.Ctxs = []C13Ctx{a, nb}
		out = append(out, d)
	}
	if b.Touch != a.Touch {
		try(func(x *C13Ctx) { x.Touch = a.Touch; x.Dims["mtimes"] = a.Dims["mtimes"] })
	}
	if b.WarmHome != a.WarmHome {
		try(func(x *C13Ctx) { x.WarmHome = a.WarmHome; x.Dims["HOME"] = a.Dims["HOME"] })
	}
	if b.AlterPrior {
		try(func(x *C13Ctx) { x.AlterPrior = false; x.Dims["prior-output"] = "kept" })
	}
	if b.StalePrior {
		try(func(x *C13Ctx) { x.StalePrior = false; x.Dims["prior-output"] = "kept" })
	}
	if b.KeepPrior {
		try(func(x *C13Ctx) { x.KeepPrior, x.AlterPrior, x.StalePrior = false, false, false; delete(x.Dims, "prior-output") })
	}
	if fmt.Sprint(b.Env) != fmt.Sprint(a.Env) {
		try(func(x *C13Ctx) {
			x.Env = a.Env
			for _, k := range []string{"TZ", "LANG", "env-noise", "TMPDIR", "go-generate-env"} {
				if v, ok := a.Dims[k]; ok {
					x.Dims[k] = v
				} else {
					delete(x.Dims, k)
				}
			}
		})
	}
	if b.GMP != a.GMP {
		try(func(x *C13Ctx) { x.GMP = a.GMP; x.Dims["gomaxprocs"] = a.Dims["gomaxprocs"] })
	}
	if b.Dims["input-form"] != a.Dims["input-form"] {
		try(func(x *C13Ctx) { x.Inv = a.Inv; x.Dims["input-form"] = a.Dims["input-form"] })
	}
	if b.Bin == "sim" && a.Bin == "sim" && b.Plan != nil && a.Plan != nil {
		if b.Plan.ClockStart != a.Plan.ClockStart || b.Plan.ClockStepNs != a.Plan.ClockStepNs {
			try(func(x *C13Ctx) {
				p := *b.Plan
				p.ClockStart, p.ClockStepNs = a.Plan.ClockStart, a.Plan.ClockStepNs
				x.Plan = &p
				x.Dims["clock"] = a.Dims["clock"]
			})
		}
		if b.Plan.Pid != a.Plan.Pid || b.Plan.Hostname != a.Plan.Hostname {
			try(func(x *C13Ctx) {
				p := *b.Plan
				p.Pid, p.Hostname = a.Plan.Pid, a.Plan.Hostname
				x.Plan = &p
				x.Dims["pid"] = a.Dims["pid"]
			})
		}
		if fmt.Sprint(b.Plan.Markers) != fmt.Sprint(a.Plan.Markers) {
			try(func(x *C13Ctx) {
				p := *b.Plan
				p.Markers = a.Plan.Markers
				x.Plan = &p
				x.Dims["marker"] = a.Dims["marker"]
			})
		}
		if fmt.Sprint(b.Plan.StatDelaysUs) != fmt.Sprint(a.Plan.StatDelaysUs) {
			try(func(x *C13Ctx) {
				p := *b.Plan
				p.StatDelaysUs = a.Plan.StatDelaysUs
				x.Plan = &p
				x.Dims["stat-delays"] = a.Dims["stat-delays"]
			})
		}
		if b.Plan.TimersEarly != a.Plan.TimersEarly {
			try(func(x *C13Ctx) {
				p := *b.Plan
				p.TimersEarly = a.Plan.TimersEarly
				x.Plan = &p
				if a.Dims["timers"] == "" {
					delete(x.Dims, "timers")
				} else {
					x.Dims["timers"] = a.Dims["timers"]
				}
			})
		}
	}
	return out
}

func runC13(cfg Config, args []string) int {
	start := time.Now()
	env, err := sim.Prepare(cfg.Repo)
	defer env.Cleanup()
	rep0 := &Report{Property: "C13", Level: "exploration", Cfg: cfg, Stats: NewStats(), Start: start, KnownHits: map[string]int{}}
	if err != nil {
		rep0.InfraErr = err
		return Finish(rep0)
	}
	if len(args) >= 2 && args[0] == "replay" {
		// map iteration order and goroutine interleaving inside the real process are
		// sampled, not dictated: a replay re-executes the recorded group up to 20 times
		hits := 0
		code := 0
		for k := 0; k < 20; k++ {
			rc := ReplayCase("C13", args[1], func(c C13Case) CaseResult { return execC13(env, c) })
			if rc == 2 {
				return 2
			}
			if rc == 1 {
				hits++
				code = 1
				if hits >= 3 {
					fmt.Printf("reproduced in %d of %d executions\n", hits, k+1)
					return 1
				}
			}
		}
		fmt.Printf("reproduced in %d of 20 executions\n", hits)
		return code
	}
	nFix, nSyn := cfg.N(6, 16), cfg.N(50, 400)
	nctx := 8
	if cfg.Tier == "thorough" {
		nctx = 24
	}
	worlds, err := BuildWorlds(cfg, "C13", nFix, nSyn, 25, true, 0)
	if err != nil {
		rep0.InfraErr = err
		return Finish(rep0)
	}
	ws := &WorldSet{Worlds: worlds}
	b := &Batch[C13Case]{Property: "C13", Level: "exploration", Cfg: cfg, Env: env, N: len(worlds),
		Gen:    func(i int) C13Case { return genC13(cfg, ws, i, nctx) },
		Exec:   func(c C13Case) CaseResult { return execC13(env, c) },
		Shrink: shrinkC13,
		Rule: fmt.Sprintf("one case = one world (fixture or synthetic, biased to several imports/interfaces, accepted and rejected) run %d times in fresh processes with the same flags while the seed varies marker bytes, simulated clock instant and step, pid, hostname, "+
			"cwd and spelling of the input path, GOFILE vs argument, GOMAXPROCS, per-file stat delays (steering the concurrent ParseFile callbacks), TZ/LANG/TMPDIR/env noise, the variables go generate exports (GOPACKAGE of another package, GOLINE, DOLLAR), source mtimes whether the previous output is still in place (unchanged, or with one byte altered at the same length), and whether HOME is fresh or was used by earlier runs (a third of the groups start with a pre-history: one run over older sources of the imported packages in this directory and HOME; in half of the groups an earlier run of the same command line is interrupted by SIGTERM while the package is being loaded, right before one of the later contexts); "+
			"a quarter of the runs use the unmodified binary. All runs of a group must agree on exit status, output bytes, stdout and (path-spelling-normalised) diagnostics. distinct_nontrivial counts distinct (world, input form, binary, GOMAXPROCS, touched, prior output) tuples.", nctx),
		Assume: []string{"the module is never moved: all runs of a group happen in the same directory", "marker collisions with the source text are never generated",
			"Go map iteration order and goroutine interleaving inside the real process are steered (GOMAXPROCS, stat delays) and sampled by repetition, not dictated; no oracle depends on them"},
		Extra:    map[string]any{"components_real": componentsReal, "components_simulated": componentsSim, "seam": env.Seam, "simulated_time": "clock instants injected: see distinct_by_measure.clock-instants; reads by convergen: counters.simulated_clock_reads"},
		Required: []string{"n:compared_runs"},
		Desired:  []string{"n:simulated_markers_used"},
	}
	rep := RunBatch(b, start)
	rep.Stats.Counters["n:groups"] = rep.Stats.Counters["evaluations"]
	rep.Stats.Counters["evaluations"] = rep.Stats.Counters["n:compared_runs"]
	return Finish(rep)
}
