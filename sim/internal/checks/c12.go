package checks

import (
	"bytes"
	"fmt"
	"path/filepath"
	"regexp"
	"strings"
	"sync"
	"time"

	"verifsim/internal/sim"
)

// C12 — regeneration ignores whatever is already at the output path.
// A case is a user's history in one package directory: edit the setup file,
// run, get interrupted, run again. After every fault-free run the reference is
// a twin: the same binary on the same sources and flags in a pristine copy of
// the world with nothing at the output path.

type C12Case struct {
	World *sim.WorldSpec `json:"world"`
	Steps []Step         `json:"steps"`
	Mode  string         `json:"mode"` // "history" or "enum"
}

// residue-producing ops understood by execC12 in addition to history.go's:
//   crashrun  - a run whose final write is interrupted (Plan has a crash fault); Data[0] selects durability
//   failwrite - a run whose write fails after k bytes

var reHead = regexp.MustCompile(`(?s)^(\s|//[^\n]*\n)*`)

func classifyCut(residue []byte) string {
	if i := bytes.IndexByte(residue, 0); i >= 0 {
		residue = residue[:i]
	}
	s := string(residue)
	rest := s[len(reHead.FindString(s)):]
	switch {
	case rest == "":
		if strings.TrimSpace(s) == "" {
			return "empty"
		}
		return "header-comment"
	case strings.HasPrefix("package", rest):
		return "package-keyword"
	case regexp.MustCompile(`^package[ \t]+\w*$`).MatchString(rest):
		return "package-identifier"
	case !strings.HasPrefix(rest, "package") && !strings.Contains(s, "\npackage "):
		return "header-comment"
	}
	if !strings.Contains(rest, "\n") {
		return "package-clause-line"
	}
	return "after-package-clause"
}

func brokenGo(r *sim.Rng, valid []byte, pkg string) ([]byte, string) {
	if len(valid) == 0 {
		valid = []byte("package " + pkg + "\n\nfunc F() int {\n\treturn 1\n}\n")
	}
	// keep everything up to and including the package clause line
	idx := bytes.Index(valid, []byte("\npackage "))
	start := 0
	if bytes.HasPrefix(valid, []byte("package ")) {
		idx = 0
	} else if idx >= 0 {
		idx++
	}
	if idx >= 0 {
		if nl := bytes.IndexByte(valid[idx:], '\n'); nl >= 0 {
			start = idx + nl + 1
		}
	}
	body := append([]byte(nil), valid[start:]...)
	head := valid[:start]
	kind := sim.Pick(r, []string{"unbalanced-brace", "deleted-span", "garbage-tokens", "flipped-byte", "nul-bytes", "dup-decls", "missing-imports",
		"bom-prefix", "build-constraint-ignore", "crlf", "leading-comment-block", "only-package-clause", "package-clause-no-newline"})
	switch kind {
	case "bom-prefix":
		return append([]byte("\xef\xbb\xbf"), valid...), kind
	case "build-constraint-ignore":
		return append([]byte("//go:build ignore\n\n"), valid...), kind
	case "crlf":
		return bytes.ReplaceAll(valid, []byte("\n"), []byte("\r\n")), kind
	case "leading-comment-block":
		return append([]byte("/*\n * left by an editor\n */\n\n"), valid...), kind
	case "only-package-clause":
		return append(append([]byte(nil), head...), '\n'), kind
	case "package-clause-no-newline":
		return bytes.TrimRight(head, "\n"), kind
	}
	switch kind {
	case "unbalanced-brace":
		body = append(body, []byte("\nfunc broken( {\n\tif x {\n")...)
	case "deleted-span":
		if len(body) > 10 {
			a := r.Intn(len(body) - 5)
			b := a + 1 + r.Intn(len(body)-a-1)
			body = append(body[:a:a], body[b:]...)
		} else {
			body = []byte("func {")
		}
	case "garbage-tokens":
		at := 0
		if len(body) > 0 {
			at = r.Intn(len(body))
		}
		g := sim.Pick(r, []string{" ))) ", " := := ", " func func ", " @@ ", " \"unterminated ", " /* open comment "})
		body = append(body[:at:at], append([]byte(g), body[at:]...)...)
	case "flipped-byte":
		if len(body) > 0 {
			at := r.Intn(len(body))
			body[at] ^= byte(1 << uint(r.Intn(7)))
		} else {
			body = []byte{0x7f}
		}
	case "nul-bytes":
		at := 0
		if len(body) > 0 {
			at = r.Intn(len(body))
		}
		body = append(body[:at:at], append(bytes.Repeat([]byte{0}, 1+r.Intn(64)), body[at:]...)...)
	case "dup-decls":
		body = append(body, body...)
	case "missing-imports":
		body = regexp.MustCompile(`(?s)import \(.*?\)\n`).ReplaceAll(body, nil)
	}
	return append(append([]byte(nil), head...), body...), kind
}

// staleImports returns the canonical output with the import path of the
// hooks package replaced by that of the same-named package elsewhere in the
// module (nil when the world has no such twin or the output does not import it).
// It is valid Go of the same package: the result of an earlier run made when
// the package lived elsewhere.
func staleImports(world *sim.WorldSpec, out []byte) []byte {
	if _, ok := world.Files["mod/legacy/hooks/hooks.go"]; !ok || len(out) == 0 {
		return nil
	}
	// rewrite the named import only; the blank import comes from the setup file
	re := regexp.MustCompile(`(?m)^(\s*)"example\.com/w/[\w/]+/hooks"$`)
	if !re.Match(out) {
		return nil
	}
	alt := re.ReplaceAll(out, []byte(`${1}"example.com/w/legacy/hooks"`))
	if bytes.Equal(alt, out) {
		return nil
	}
	return alt
}

func hasSiblingGoFiles(w *sim.WorldSpec) bool {
	for p := range w.Files {
		if p != w.Setup && filepath.Dir(p) == filepath.Dir(w.Setup) && strings.HasSuffix(p, ".go") {
			return true
		}
	}
	return false
}

func pickK(r *sim.Rng, L int) int {
	if L <= 0 {
		return 0
	}
	if r.Bool() {
		h := 256
		if h > L {
			h = L
		}
		return r.Intn(h + 1)
	}
	return r.Intn(L + 1)
}

// altOut picks a redirected output path: another name in the package directory
// (also one that the go tool leaves out of the package: another GOOS, a leading
// underscore), an existing sub-directory (the layout of the repository's own
// ref/generated use case), or a directory outside the module. The old content
// there is then not among the files the package loader ever sees - and still
// has to be ignored.
func altOut(r *sim.Rng, world *sim.WorldSpec) string {
	setup := "{W}/" + world.Setup
	names := []string{"zz_generated.go", "conv_gen.go", "logo.go", "conv_windows.go", "_conv.go"}
	if _, ok := world.Files[filepath.Dir(world.Setup)+"/sub/keep.txt"]; ok {
		// only where the sub-directory exists in the world (and so in the twin's)
		names = append(names, "sub/out.gen.go", "sub/generated.go")
	}
	if r.Chance(1, 4) {
		return "{W}/outside/out.gen.go"
	}
	return filepath.Dir(setup) + "/" + sim.Pick(r, names)
}

// tplInv is the invocation of a template case: the default output for two
// cases in three, a redirected one (altOut) for the third.
func tplInv(cfg Config, world *sim.WorldSpec, wi, t int, label string) Invocation {
	iv := SetupInv(world)
	r := sim.Derive(cfg.Seed, "C12", label+"-out", wi, t)
	if r.Chance(1, 3) {
		iv.OutArg = altOut(r, world)
		iv.OutPath = ResolveOut(iv.Cwd, iv.Input, "", iv.OutArg)
	}
	return iv
}

func genC12(cfg Config, ws *WorldSet, i int) C12Case {
	wi := i % len(ws.Worlds)
	world := ws.Worlds[wi]
	canon := ws.Canon[wi]
	r := sim.Derive(cfg.Seed, "C12", "case", i)
	setup := "{W}/" + world.Setup
	pkg := pkgNameOf(world.Files[world.Setup])
	L := len(canon.Out)
	if L == 0 {
		L = 600
	}
	// one history in eight redirects its output with -out (same directory, another name);
	// the whole history then lives at that path
	outArg := ""
	if r.Chance(1, 5) {
		outArg = altOut(r, world)
	}
	mkInv := func() *Invocation {
		form := sim.Pick(r, []string{"rel-pkgdir", "rel-pkgdir", "rel-pkgdir", "rel-modroot", "gofile", "abs", "symlink-modroot"})
		cwd, in, gofile := InputForm(form, setup)
		iv := &Invocation{Cwd: cwd, Input: in, GoFile: gofile, OutArg: outArg}
		switch r.Intn(10) {
		case 0:
			iv.Dry, iv.Print = true, true
		case 1:
			iv.Log = true
		case 2:
			iv.Print = true
		}
		iv.OutPath = ResolveOut(cwd, in, gofile, outArg)
		return iv
	}
	outPath := ResolveOut(filepath.Dir(setup), filepath.Base(setup), "", outArg)
	runStep := func() Step {
		s := Step{Op: "run", Inv: mkInv(), Bin: "sim", Plan: &sim.Plan{Markers: genMarkers(r, 4)}}
		switch r.Intn(8) {
		case 0, 1:
			s.Bin, s.Plan = "plain", nil
		case 2:
			// not a fault but a circumstance: in this environment no file can be moved
			// onto the output path (the temporary directory is on another file system,
			// the target is busy). The twin runs in the same environment.
			s.Plan.Faults = []sim.Fault{{Op: "OUTPUT-COMMIT", Path: s.Inv.OutPath, Kind: "err", Errno: sim.Pick(r, []string{"EXDEV", "EXDEV", "EBUSY"})}}
			s.Note = "env:no-move-onto-output"
		}
		return s
	}
	var steps []Step
	n := r.Range(3, 8)
	if r.Chance(2, 3) {
		steps = append(steps, runStep()) // most histories start with a successful generation
	}
	for len(steps) < n {
		switch r.Intn(9) {
		case 0, 1:
			steps = append(steps, runStep())
		case 2:
			if len(world.Variants) > 0 {
				v := r.Intn(len(world.Variants) + 1)
				if v == 4 && hasSiblingGoFiles(world) {
					v = 1 // renaming the package needs every file of the package renamed
				}
				data := world.Files[world.Setup]
				if v > 0 {
					data = world.Variants[v-1]
				}
				steps = append(steps, Step{Op: "edit", Path: setup, Data: []byte(data), Note: fmt.Sprintf("variant %d", v)})
			}
		case 3, 4:
			// a run killed inside its final write
			kind := sim.Pick(r, []string{"crash_mid", "crash_mid", "crash_mid", "crash_after_open", "crash_before_close", "crash_before_open", "commit:crash_before", "commit:crash_after", "sigint", "sigterm", "load:sigterm", "entry:sigint"})
			iv := mkInv()
			iv.Dry = false
			steps = append(steps, crashStep(r, iv, kind, pickK(r, L), sim.Pick(r, []string{"as-written", "as-written", "zero-filled-tail", "cut-to-4096", "write-lost"}), setup))
		case 5:
			if r.Chance(1, 5) {
				steps = append(steps, Step{Op: "chmod", Path: outPath, K: sim.Pick(r, []int{0o444, 0o600, 0o755, 0o200}), Note: "mode-changed"})
				break
			}
			steps = append(steps, Step{Op: "truncate", Path: outPath, K: pickK(r, L), Note: "truncation"})
		case 6:
			steps = append(steps, Step{Op: "zerotail", Path: outPath, K: pickK(r, L), Note: "zero-filled-tail"})
		case 7:
			if alt := staleImports(world, canon.Out); alt != nil && r.Bool() {
				// a valid older result whose import block names the package's former location
				steps = append(steps, Step{Op: "write", Path: outPath, Data: alt, Note: "stale-output:other-import-path"})
				break
			}
			data, kind := brokenGo(r, canon.Out, pkg)
			steps = append(steps, Step{Op: "write", Path: outPath, Data: data, Note: "broken-go:" + kind})
		case 8:
			iv := mkInv()
			iv.Dry = false
			steps = append(steps, Step{Op: "failwrite", Inv: iv, Bin: "sim", Plan: &sim.Plan{Markers: genMarkers(r, 4),
				Faults: []sim.Fault{{Op: "OUTPUT-OPEN", Path: iv.OutPath, Kind: "short_write", Errno: sim.Pick(r, []string{"ENOSPC", "EIO"}), K: pickK(r, L)}}},
				Note: "failed-write"})
		}
	}
	// the history always ends with the repairing run
	steps = append(steps, runStep())
	return C12Case{World: world, Steps: steps, Mode: "history"}
}

// crashStep builds a run that is killed at one point of its final write: inside
// whatever opens the output (or a temporary sibling) for writing, or around
// whatever moves a file onto the output path.
func crashStep(r *sim.Rng, iv *Invocation, kind string, k int, durability string, setup string) Step {
	f := sim.Fault{Op: "OUTPUT-OPEN", Path: iv.OutPath, Kind: kind, K: k}
	if strings.HasPrefix(kind, "load:") || strings.HasPrefix(kind, "entry:") {
		// interrupted long before the write: on entry (the first look at the setup
		// file) or while the package is being loaded (the loader's callback looks at
		// it again). With the default disposition no deferred function runs; whatever
		// the run had set up by then stays behind
		nth := 2
		if strings.HasPrefix(kind, "entry:") {
			nth = 1
		}
		f = sim.Fault{Op: "Stat", Path: setup, Nth: nth, Kind: kind[strings.Index(kind, ":")+1:]}
		durability = "as-written"
	}
	if strings.HasPrefix(kind, "commit:") {
		f = sim.Fault{Op: "OUTPUT-COMMIT", Path: iv.OutPath, Kind: strings.TrimPrefix(kind, "commit:")}
		durability = "as-written"
	}
	if kind == "crash_before_close" {
		f.K = -1
	}
	if strings.HasPrefix(kind, "sig") {
		// interrupted by a signal it may catch, with everything ready to be written
		durability = "as-written"
	}
	return Step{Op: "crashrun", Inv: iv, Bin: "sim", Plan: &sim.Plan{Markers: genMarkers(r, 4), Faults: []sim.Fault{f}}, Note: durability}
}

var c12CrashKinds = []string{"crash_before_open", "crash_after_open", "crash_mid", "crash_before_close", "commit:crash_before", "commit:crash_after", "sigint", "load:sigterm"}

// genC12Recovery: the crash-recovery templates, systematically for every crash
// kind: [crash, run] and [edit to a longer setup, crash, edit back to the shorter
// one, run] - an interrupted run must be repaired by simply running again, also
// when the next result is shorter than what the interrupted run had produced.
func genC12Recovery(cfg Config, ws *WorldSet, wi, t int) C12Case {
	world := ws.Worlds[wi]
	r := sim.Derive(cfg.Seed, "C12", "recovery", wi, t)
	iv := tplInv(cfg, world, wi, t, "recovery")
	kind := c12CrashKinds[t%len(c12CrashKinds)]
	L := len(ws.Canon[wi].Out)
	k := L / 2
	var steps []Step
	setup := "{W}/" + world.Setup
	shrink := (t/len(c12CrashKinds))%2 == 1 && len(world.Variants) > 0
	if shrink {
		// variant 1 adds a method: its result is longer
		steps = append(steps, Step{Op: "edit", Path: setup, Data: []byte(world.Variants[0]), Note: "variant 1 (longer)"})
		if (t/(2*len(c12CrashKinds)))%2 == 1 {
			steps = append(steps, Step{Op: "run", Inv: &iv, Bin: "plain"})
		}
	}
	ivc := iv
	steps = append(steps, crashStep(r, &ivc, kind, k, "as-written", setup))
	if shrink {
		steps = append(steps, Step{Op: "edit", Path: setup, Data: []byte(world.Files[world.Setup]), Note: "variant 0 (shorter)"})
	}
	iv2 := iv
	steps = append(steps, Step{Op: "run", Inv: &iv2, Bin: "plain"})
	return C12Case{World: world, Steps: steps, Mode: "recovery"}
}

// genC12Edit: the edit templates, systematically for every variant of the setup
// file: [run, edit to v, run] and [run, edit to v, run, edit back, run].
func genC12Edit(cfg Config, ws *WorldSet, wi, t int) C12Case {
	world := ws.Worlds[wi]
	iv := tplInv(cfg, world, wi, t, "edit")
	setup := "{W}/" + world.Setup
	nv := len(world.Variants)
	mk := func() Step { i := iv; return Step{Op: "run", Inv: &i, Bin: "plain"} }
	if t >= 2*nv {
		// the setup file is saved half-edited (a syntax error), a run fails on it, the
		// edit is completed or taken back, the next run has to be as on an empty path
		broken := world.Files[world.Setup] + "\nfunc halfWritten( {\n"
		steps := []Step{}
		if t%2 == 1 {
			steps = append(steps, mk())
		}
		steps = append(steps, Step{Op: "edit", Path: setup, Data: []byte(broken), Note: "half-edited (syntax error)"}, mk(),
			Step{Op: "edit", Path: setup, Data: []byte(world.Files[world.Setup]), Note: "variant 0"}, mk())
		return C12Case{World: world, Steps: steps, Mode: "edit"}
	}
	v := t % nv
	if v == 3 && hasSiblingGoFiles(world) { // index 3 = variant 4 (package renamed)
		v = 0
	}
	steps := []Step{mk(), {Op: "edit", Path: setup, Data: []byte(world.Variants[v]), Note: fmt.Sprintf("variant %d", v+1)}, mk()}
	if (t/nv)%2 == 1 {
		steps = append(steps, Step{Op: "edit", Path: setup, Data: []byte(world.Files[world.Setup]), Note: "variant 0"}, mk())
	}
	return C12Case{World: world, Steps: steps, Mode: "edit"}
}

// genC12Enum: every truncation point (and zero-filled tail) of the canonical output.
func genC12Enum(ws *WorldSet, wi, k int, zero, link bool) C12Case {
	world := ws.Worlds[wi]
	canon := ws.Canon[wi]
	iv := SetupInv(world)
	if link {
		// the same, with the module entered through a symbolic link (logical and
		// physical spelling of every path differ)
		cwd, in, _ := InputForm("symlink-modroot", "{W}/"+world.Setup)
		iv = Invocation{Cwd: cwd, Input: in, OutPath: ResolveOut(cwd, in, "", "")}
	}
	var st Step
	if zero {
		d := append([]byte(nil), canon.Out...)
		for j := k; j < len(d); j++ {
			d[j] = 0
		}
		st = Step{Op: "write", Path: iv.OutPath, Data: d, Note: "zero-filled-tail", K: k}
	} else {
		st = Step{Op: "write", Path: iv.OutPath, Data: append([]byte(nil), canon.Out[:k]...), Note: "truncation", K: k}
	}
	return C12Case{World: world, Mode: "enum", Steps: []Step{st, {Op: "run", Inv: &iv, Bin: "plain"}}}
}

// genC12Near: residues that are ALMOST what the run is about to write - the
// current result cut at its very end, with other line terminators, with extra
// or missing trailing newlines, with one byte changed. A run that compares before
// it writes (to spare the file's time stamp, say) has to compare exactly.
var c12NearKinds = []string{"cut-last-byte", "cut-last-2", "cut-last-line", "extra-newline", "extra-newlines", "crlf", "cr-at-end", "trailing-space", "last-byte-changed", "one-byte-changed", "upper-cased-comment"}

func genC12Near(ws *WorldSet, wi, t int) C12Case {
	world := ws.Worlds[wi]
	out := ws.Canon[wi].Out
	iv := SetupInv(world)
	if t < 0 {
		// a VALID older result whose import block names the package's former location
		// (the same-named twin elsewhere in the module): not left to the luck of a
		// seeded history, since a whole family of defects shows only here
		iv.Print = t == -2
		st := Step{Op: "write", Path: iv.OutPath, Data: staleImports(world, out), Note: "stale-output:other-import-path"}
		return C12Case{World: world, Mode: "near", Steps: []Step{st, {Op: "run", Inv: &iv, Bin: "plain"}}}
	}
	kind := c12NearKinds[t%len(c12NearKinds)]
	d := append([]byte(nil), out...)
	L := len(d)
	switch kind {
	case "cut-last-byte":
		d = d[:L-1]
	case "cut-last-2":
		d = d[:L-2]
	case "cut-last-line":
		d = d[:bytes.LastIndexByte(d[:L-1], '\n')+1]
	case "extra-newline":
		d = append(d, '\n')
	case "extra-newlines":
		d = append(d, "\n\n\n"...)
	case "crlf":
		d = bytes.ReplaceAll(d, []byte("\n"), []byte("\r\n"))
	case "cr-at-end":
		d = append(d[:L-1], "\r\n"...)
	case "trailing-space":
		d = append(d[:L-1], " \n"...)
	case "last-byte-changed":
		d[L-1] = ' '
	case "one-byte-changed":
		// inside the last identifier-ish run of the body
		for i := L - 2; i > 0; i-- {
			if d[i] >= 'a' && d[i] <= 'y' {
				d[i]++
				break
			}
		}
	case "upper-cased-comment":
		d = bytes.Replace(d, []byte("// Code generated by"), []byte("// CODE GENERATED BY"), 1)
	}
	st := Step{Op: "write", Path: iv.OutPath, Data: d, Note: "near-identical:" + kind}
	return C12Case{World: world, Mode: "near", Steps: []Step{st, {Op: "run", Inv: &iv, Bin: "plain"}}}
}

type twinKey struct{ world, setup, args, gofile, cwd, env string }

type twinEntry struct {
	once sync.Once
	res  *StepResult
	err  error
}

// twinCache shares twin results between the cases of a batch: a twin is a
// function of (world, setup file content, invocation) only.
var twinCache sync.Map

func runTwin(env *sim.Env, world *sim.WorldSpec, curSetup string, inv *Invocation, envPlan *sim.Plan, st *Stats) (*StepResult, error) {
	tw := world.Clone()
	tw.Files[tw.Setup] = curSetup
	troot, err := env.NewWorldDir(tw, "c12twin")
	if err != nil {
		return nil, err
	}
	defer env.DropWorldDir(troot)
	ExecSteps(env, troot, []Step{c12Link}, nil)
	run := Step{Op: "run", Inv: inv, Bin: "plain"}
	if envPlan != nil {
		// the same circumstances as the run it is the reference for
		run.Bin, run.Plan = "sim", &sim.Plan{Faults: append([]sim.Fault(nil), envPlan.Faults...)}
	}
	rs := ExecSteps(env, troot, []Step{{Op: "remove", Path: inv.OutPath}, run}, st)
	if rs[1].Err != nil || rs[1].Obs == nil || strings.HasPrefix(rs[1].Obs.Status, "starterr") {
		return nil, fmt.Errorf("twin run: %v", rs[1].Err)
	}
	rs[1].Obs.Stderr = []byte(sim.Unsubst(string(rs[1].Obs.Stderr), troot))
	st.Inc("n:twin_runs")
	return &rs[1], nil
}

// every C12 world (and every twin's) has a symbolic link to the module root
// next to it, for the histories that enter the module through it
var c12Link = Step{Op: "symlink", Path: "{W}/elsewhere/modlink", Data: []byte("{W}/mod")}

// envPlanOf: the part of a compared run's plan that describes its environment
// (as opposed to a fault of that run), which its twin shares.
func envPlanOf(s *Step) *sim.Plan {
	if strings.HasPrefix(s.Note, "env:") && s.Plan != nil && len(s.Plan.Faults) > 0 {
		return s.Plan
	}
	return nil
}

func envOf(s *Step) string {
	if p := envPlanOf(s); p != nil {
		return s.Note + ":" + p.Faults[0].Errno
	}
	return ""
}

func execC12(env *sim.Env, c C12Case) CaseResult {
	st := NewStats()
	res := CaseResult{Stats: st}
	root, err := env.NewWorldDir(c.World, "c12")
	if err != nil {
		res.Infra = err
		return res
	}
	defer env.DropWorldDir(root)
	ExecSteps(env, root, []Step{c12Link}, nil)
	curSetup := c.World.Files[c.World.Setup]
	lastResidue := "none"
	cut := ""
	var logParts []string
	twinOf := func(s *Step) (*StepResult, error) {
		key := twinKey{c.World.Digest(), sim.HashBytes([]byte(curSetup)), strings.Join(s.Inv.Args(), " "), s.Inv.GoFile, s.Inv.Cwd, envOf(s)}
		ei, _ := twinCache.LoadOrStore(key, &twinEntry{})
		e := ei.(*twinEntry)
		e.once.Do(func() { e.res, e.err = runTwin(env, c.World, curSetup, s.Inv, envPlanOf(s), st) })
		return e.res, e.err
	}
	for si := range c.Steps {
		s := c.Steps[si]
		switch s.Op {
		case "edit":
			curSetup = string(s.Data)
			ExecSteps(env, root, []Step{s}, st)
			lastResidue = "stale-output-after-edit"
			st.Inc("n:step:edit")
			logParts = append(logParts, "edit")
		case "chmod":
			ExecSteps(env, root, []Step{s}, st)
			st.Inc("n:step:mode-changed")
			logParts = append(logParts, "chmod")
		case "truncate", "zerotail", "write":
			// corruption of whatever is at the output path; truncation never extends
			p := w(root, s.Path)
			cur, exists := sim.ReadMaybe(p)
			if s.Op != "write" {
				if !exists {
					logParts = append(logParts, s.Op+":noop")
					continue
				}
				if s.K > len(cur) {
					s.K = len(cur)
				}
			}
			rs := ExecSteps(env, root, []Step{s}, st)
			if rs[0].Err != nil {
				res.Infra = fmt.Errorf("step %d %s: %v", si, s.Op, rs[0].Err)
				return res
			}
			after, _ := sim.ReadMaybe(p)
			lastResidue = s.Note
			cut = classifyCut(after)
			st.Inc("n:step:" + strings.SplitN(s.Note, ":", 2)[0])
			st.Seen("residues", s.Note+"|"+cut)
			logParts = append(logParts, fmt.Sprintf("%s:%s:%s", s.Op, s.Note, sim.HashBytes(after)))
		case "crashrun", "failwrite":
			before, existed := sim.ReadMaybe(w(root, s.Inv.OutPath))
			s2 := s
			s2.Op = "run"
			rs := ExecSteps(env, root, []Step{s2}, st)
			r := rs[0]
			if r.Err != nil || r.Obs == nil {
				res.Infra = fmt.Errorf("step %d %s: %v", si, s.Op, r.Err)
				return res
			}
			fired := len(r.Obs.Fired) > 0
			if s.Op == "crashrun" && fired {
				st.Inc("n:crashes_landed_in_write")
				// what a power failure may additionally do to un-synced data
				after, _ := sim.ReadMaybe(w(root, s.Inv.OutPath))
				switch s.Note {
				case "zero-filled-tail":
					full := s.Plan.Faults[0].K + 200
					if len(after) < full {
						pad := append(append([]byte(nil), after...), make([]byte, full-len(after))...)
						ExecSteps(env, root, []Step{{Op: "write", Path: s.Inv.OutPath, Data: pad}}, nil)
					}
				case "cut-to-4096":
					ExecSteps(env, root, []Step{{Op: "write", Path: s.Inv.OutPath, Data: after[:len(after)/4096*4096]}}, nil)
				case "write-lost":
					if existed {
						ExecSteps(env, root, []Step{{Op: "write", Path: s.Inv.OutPath, Data: before}}, nil)
					} else {
						ExecSteps(env, root, []Step{{Op: "remove", Path: s.Inv.OutPath}}, nil)
					}
				}
				lastResidue = "crash:" + s.Plan.Faults[0].Kind + ":" + s.Note
			} else if fired {
				st.Inc("n:failed_writes")
				lastResidue = "failed-write"
			} else {
				st.Inc("n:fault_not_reached")
			}
			after, _ := sim.ReadMaybe(w(root, s.Inv.OutPath))
			cut = classifyCut(after)
			st.Seen("residues", lastResidue+"|"+cut)
			logParts = append(logParts, fmt.Sprintf("%s:%s:%s:%s", s.Op, r.Obs.Status, lastResidue, sim.HashBytes(after)))
		case "run":
			preOut, preExists := sim.ReadMaybe(w(root, s.Inv.OutPath))
			rs := ExecSteps(env, root, []Step{s}, st)
			r := &rs[0]
			if r.Err != nil || r.Obs == nil || strings.HasPrefix(r.Obs.Status, "starterr") {
				res.Infra = fmt.Errorf("step %d run: %v", si, r.Err)
				return res
			}
			tw, err := twinOf(&s)
			if err != nil {
				res.Infra = err
				return res
			}
			st.Inc("n:compared_runs")
			if preExists {
				st.Inc("n:compared_runs_with_something_at_output")
			}
			st.Seen("nontrivial", fmt.Sprintf("%s|%s|%s|%s|%s", c.World.Digest(), lastResidue, cut, s.Inv.FlagSet(), tw.Obs.Status))
			sig := map[string]string{"residue": strings.SplitN(lastResidue, ":", 2)[0], "residue_detail": lastResidue, "cut_inside": cut,
				"status": r.Obs.Status, "twin_status": tw.Obs.Status, "flags": s.Inv.FlagSet()}
			r.Obs.Stderr = []byte(sim.Unsubst(string(r.Obs.Stderr), root))
			if r.Obs.Status != tw.Obs.Status || (tw.OutExists && !s.Inv.Dry && !bytes.Equal(r.OutBytes, tw.OutBytes)) || (s.Inv.Print && !bytes.Equal(r.Obs.Stdout, tw.Obs.Stdout)) {
				// before blaming the residue make sure the reference itself is stable:
				// an output that differs between two pristine runs is C13's business
				tw2, err := runTwin(env, c.World, curSetup, s.Inv, envPlanOf(&s), st)
				if err == nil && (tw2.Obs.Status != tw.Obs.Status || !bytes.Equal(tw2.OutBytes, tw.OutBytes) || !bytes.Equal(tw2.Obs.Stdout, tw.Obs.Stdout)) {
					st.Inc("n:unstable_reference_skipped")
					st.Note("world %s: two pristine runs differ (status %s/%s, out %s/%s): comparison skipped, see C13", c.World.Name, tw.Obs.Status, tw2.Obs.Status, sim.HashBytes(tw.OutBytes), sim.HashBytes(tw2.OutBytes))
					logParts = append(logParts, "run:unstable-reference")
					continue
				}
			}
			mk := func(diff, sum string) *Violation {
				sg := map[string]string{"diff": diff}
				for k, v := range sig {
					sg[k] = v
				}
				return &Violation{Property: "C12", Invariant: "C12/as-if-empty", Sig: sg, Summary: sum,
					Detail: fmt.Sprintf("stderr of the run:\n%s\nstderr of the twin:\n%s", clip(r.Obs.Stderr, 600), clip(tw.Obs.Stderr, 600))}
			}
			switch {
			case r.Obs.Status != tw.Obs.Status:
				res.Viol = append(res.Viol, mk("status", fmt.Sprintf("with %s (%s) at the output path the run ended %s, with nothing there %s", lastResidue, cut, r.Obs.Status, tw.Obs.Status)))
			case tw.OutExists && !s.Inv.Dry && !bytes.Equal(r.OutBytes, tw.OutBytes):
				res.Viol = append(res.Viol, mk("bytes", fmt.Sprintf("with %s (%s) at the output path the run wrote %d bytes (%s), with nothing there %d bytes (%s)", lastResidue, cut, len(r.OutBytes), sim.HashBytes(r.OutBytes), len(tw.OutBytes), sim.HashBytes(tw.OutBytes))))
			case !tw.OutExists && (r.OutExists != preExists || !bytes.Equal(r.OutBytes, preOut)):
				res.Viol = append(res.Viol, mk("wrote-where-twin-wrote-nothing", fmt.Sprintf("with %s at the output path the run changed it although the same run on an empty path writes nothing (%s)", lastResidue, tw.Obs.Status)))
			case s.Inv.Print && !bytes.Equal(r.Obs.Stdout, tw.Obs.Stdout):
				res.Viol = append(res.Viol, mk("stdout", fmt.Sprintf("with %s at the output path -print showed different code", lastResidue)))
			}
			logParts = append(logParts, fmt.Sprintf("run:%s:%s:%s", s.Inv.FlagSet(), r.Obs.Status, sim.HashBytes(r.OutBytes)))
			if r.Obs.Status == "exit:0" && !s.Inv.Dry {
				lastResidue, cut = "own-previous-output", "complete"
			}
			if len(st.Samples) == 0 && si > 0 {
				var hist []string
				for _, x := range c.Steps[:si+1] {
					d := x.Op
					if x.Note != "" {
						d += "(" + x.Note + ")"
					}
					if x.Inv != nil {
						d += fmt.Sprint(x.Inv.Args())
					}
					hist = append(hist, d)
				}
				st.Samples = append(st.Samples, map[string]any{"mode": c.Mode, "world": c.World.Name, "history": hist, "status": r.Obs.Status, "twin_status": tw.Obs.Status,
					"out_hash": sim.HashBytes(r.OutBytes), "twin_out_hash": sim.HashBytes(tw.OutBytes)})
			}
		default:
			res.Infra = fmt.Errorf("unknown step %q", s.Op)
			return res
		}
		if len(res.Viol) > 0 {
			break
		}
	}
	res.Log = fmt.Sprintf("C12 world=%s %s viol=%d", c.World.Digest(), strings.Join(logParts, " "), len(res.Viol))
	return res
}

func shrinkC12(c C12Case) []C12Case {
	var out []C12Case
	// cut the history after the first failing run is implicit (exec stops there);
	// drop one step at a time (never the last one, which is the failing run)
	n := len(c.Steps)
	for i := n - 2; i >= 0; i-- {
		d := c
		d.Steps = append(append([]Step(nil), c.Steps[:i]...), c.Steps[i+1:]...)
		out = append(out, d)
	}
	// drop trailing steps
	for i := n - 1; i >= 2; i-- {
		if c.Steps[i-1].Op == "run" {
			d := c
			d.Steps = append([]Step(nil), c.Steps[:i]...)
			out = append(out, d)
		}
	}
	// simplify steps
	for i, s := range c.Steps {
		if s.Op == "run" && s.Bin == "sim" {
			d := c
			d.Steps = append([]Step(nil), c.Steps...)
			s2 := s
			s2.Bin, s2.Plan = "plain", nil
			d.Steps[i] = s2
			out = append(out, d)
		}
		if s.Op == "run" && (s.Inv.Log || s.Inv.Print || s.Inv.Dry) {
			d := c
			d.Steps = append([]Step(nil), c.Steps...)
			iv := *s.Inv
			iv.Log, iv.Print, iv.Dry = false, false, false
			s2 := s
			s2.Inv = &iv
			d.Steps[i] = s2
			out = append(out, d)
		}
		if (s.Op == "truncate" || s.Op == "zerotail") && s.K > 0 {
			for _, k := range []int{0, s.K / 2, s.K - 1} {
				if k == s.K {
					continue
				}
				d := c
				d.Steps = append([]Step(nil), c.Steps...)
				s2 := s
				s2.K = k
				d.Steps[i] = s2
				out = append(out, d)
			}
		}
		if s.Op == "crashrun" && s.Note != "as-written" {
			d := c
			d.Steps = append([]Step(nil), c.Steps...)
			s2 := s
			s2.Note = "as-written"
			d.Steps[i] = s2
			out = append(out, d)
		}
	}
	return out
}

func runC12(cfg Config, args []string) int {
	start := time.Now()
	env, err := sim.Prepare(cfg.Repo)
	defer env.Cleanup()
	rep0 := &Report{Property: "C12", Level: "fault_enumeration", Cfg: cfg, Stats: NewStats(), Start: start, KnownHits: map[string]int{}}
	if err != nil {
		rep0.InfraErr = err
		return Finish(rep0)
	}
	if len(args) >= 2 && args[0] == "replay" {
		return ReplayCase("C12", args[1], func(c C12Case) CaseResult { return execC12(env, c) })
	}
	nFix, nSyn := cfg.N(3, 16), cfg.N(5, 44)
	worlds, err := BuildWorlds(cfg, "C12", nFix, nSyn, 20, false, 6)
	if err != nil {
		rep0.InfraErr = err
		return Finish(rep0)
	}
	pre := NewStats()
	canon, err := ComputeCanon(env, worlds, pre)
	if err != nil {
		rep0.InfraErr = err
		return Finish(rep0)
	}
	ws := &WorldSet{Worlds: worlds, Canon: canon}
	nHist := cfg.N(96, 1200)
	// complete enumeration of truncation points for some accepted worlds
	type enumItem struct {
		wi, k int
		zero  bool
		link  bool
	}
	var enum []enumItem
	enumWorlds := cfg.N(0, 10)
	stride := 1
	if cfg.Tier == "quick" {
		enumWorlds, stride = 2, 0 // quick: only the first 80 bytes (header + package clause) of two worlds
	}
	cnt := 0
	for wi := range worlds {
		// (every byte of a 100 KB result would be 200 000 runs: the big worlds get the
		// page multiples and the near-identical residues instead)
		if !canon[wi].Accepted || cnt >= enumWorlds || len(canon[wi].Out) > 16384 {
			continue
		}
		cnt++
		L := len(canon[wi].Out)
		if stride == 0 {
			for k := 0; k <= 80 && k <= L; k++ {
				enum = append(enum, enumItem{wi, k, false, false})
			}
			for k := 60; k <= 80 && k <= L; k += 4 {
				enum = append(enum, enumItem{wi, k, true, false})
			}
			if cnt == 1 {
				for k := 60; k <= 80 && k <= L; k++ {
					enum = append(enum, enumItem{wi, k, false, true})
				}
			}
		} else {
			for k := 0; k <= L; k++ {
				enum = append(enum, enumItem{wi, k, false, false}, enumItem{wi, k, true, false})
				if cnt <= 2 {
					enum = append(enum, enumItem{wi, k, false, true})
				}
			}
		}
	}
	// truncation at every multiple of the page size, for every accepted world whose
	// result is longer than a page (what a crash leaves when whole pages had reached
	// the disk; also where chunked readers and writers have their boundaries)
	for wi := range worlds {
		if !canon[wi].Accepted {
			continue
		}
		L, n := len(canon[wi].Out), 0
		for k := 4096; k < L && (cfg.Tier != "quick" || n < 24); k += 4096 {
			enum = append(enum, enumItem{wi, k, false, false})
			n++
		}
	}
	// crash-recovery templates for the first accepted worlds that have variants
	type recItem struct{ wi, t int }
	var rec []recItem
	recWorlds := cfg.N(2, 12)
	cnt = 0
	for wi := range worlds {
		if !canon[wi].Accepted || len(worlds[wi].Variants) == 0 || cnt >= recWorlds {
			continue
		}
		cnt++
		for t := 0; t < 4*len(c12CrashKinds); t++ {
			rec = append(rec, recItem{wi, t})
		}
	}
	// edit templates for the same kind of worlds (one more of them)
	var edits []recItem
	cnt = 0
	for wi := range worlds {
		if !canon[wi].Accepted || len(worlds[wi].Variants) == 0 || cnt >= recWorlds+1 {
			continue
		}
		cnt++
		for t := 0; t < 2*len(worlds[wi].Variants)+2; t++ {
			edits = append(edits, recItem{wi, t})
		}
	}
	// near-identical residues for the enumeration worlds (quick: two, thorough: up to 10)
	var near []recItem
	cnt = 0
	for wi := range worlds {
		if !canon[wi].Accepted || len(canon[wi].Out) < 8 || cnt >= cfg.N(2, 10) {
			continue
		}
		cnt++
		for t := range c12NearKinds {
			near = append(near, recItem{wi, t})
		}
	}
	for wi := range worlds {
		if canon[wi].Accepted && staleImports(worlds[wi], canon[wi].Out) != nil {
			near = append(near, recItem{wi, -1}, recItem{wi, -2})
		}
	}
	b := &Batch[C12Case]{Property: "C12", Level: "fault_enumeration", Cfg: cfg, Env: env, N: nHist + len(enum) + len(rec) + len(edits) + len(near),
		Gen: func(i int) C12Case {
			if i >= nHist+len(enum)+len(rec)+len(edits) {
				j := i - (nHist + len(enum) + len(rec) + len(edits))
				return genC12Near(ws, near[j].wi, near[j].t)
			}
			if i < len(enum) {
				return genC12Enum(ws, enum[i].wi, enum[i].k, enum[i].zero, enum[i].link)
			}
			if i < len(enum)+len(rec) {
				return genC12Recovery(cfg, ws, rec[i-len(enum)].wi, rec[i-len(enum)].t)
			}
			if i < len(enum)+len(rec)+len(edits) {
				return genC12Edit(cfg, ws, edits[i-len(enum)-len(rec)].wi, edits[i-len(enum)-len(rec)].t)
			}
			return genC12(cfg, ws, i-len(enum)-len(rec)-len(edits))
		},
		Exec:   func(c C12Case) CaseResult { return execC12(env, c) },
		Shrink: shrinkC12,
		Rule: "histories of 3-8 seeded steps (run / edit setup file / run killed by SIGKILL inside its final write at byte k with a durability model / truncate / zero-filled tail / broken Go of the same package / write failing after k bytes) in fixture and synthetic worlds, " +
			"every fault-free run compared with a twin run of the same binary on the same sources and flags in a pristine world with nothing at the output path; plus enumeration of truncation points k of the canonical output " +
			"(thorough: every k and every zero-filled tail for up to 10 accepted worlds; quick: k<=80 for two worlds); plus crash-recovery templates for every crash kind (before/after the open, mid-write, before the close, before/after a rename onto the output): [crash, run] and [edit to a longer setup, (run,) crash, edit back, run]; and edit templates for every variant of the setup file (method added / removed, notation swapped, comment appended, package renamed, import renamed): [run, edit, run] and [run, edit, run, edit back, run]. distinct_nontrivial counts distinct (world, residue kind, where the residue ends, flag set, twin status) tuples at compared runs.",
		Assume: []string{"only the residue categories the property names are generated: older output, truncation at any byte (also with zero-filled tail / block-aligned cut), syntactically broken Go of the same package",
			"stderr is not compared (not in the statement)"},
		Extra:    map[string]any{"components_real": componentsReal, "components_simulated": componentsSim, "seam": env.Seam, "enumerated_truncation_cases": len(enum), "crash_recovery_template_cases": len(rec), "edit_template_cases": len(edits), "near_identical_residue_cases": len(near), "history_cases": nHist, "simulated_time": "not applicable: convergen reads no clock"},
		Required: []string{"n:compared_runs_with_something_at_output"},
		Desired:  []string{"n:crashes_landed_in_write", "n:failed_writes"},
	}
	rep := RunBatch(b, start)
	rep.Stats.Merge(pre)
	if cfg.Tier == "thorough" && len(rep.Violations) == 0 {
		rep.Exhaustive = false
	}
	return Finish(rep)
}
