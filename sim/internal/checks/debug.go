package checks

import (
	"fmt"
	"os"
	"time"

	"verifsim/internal/gensim"
	"verifsim/internal/sim"
)

// runGenStat is a development aid: canonical result of N synthetic worlds.
func runGenStat(cfg Config, args []string) int {
	env, err := sim.Prepare(cfg.Repo)
	defer env.Cleanup()
	if err != nil {
		fmt.Println(err)
		return 2
	}
	n := cfg.N(40, 200)
	worlds, _ := BuildWorlds(cfg, "genstat", 0, n, 0, true, 0)
	st := NewStats()
	t0 := time.Now()
	canon, err := ComputeCanon(env, worlds, st)
	if err != nil {
		fmt.Println(err)
		return 2
	}
	acc := 0
	for i, c := range canon {
		if c.Accepted {
			acc++
			continue
		}
		fmt.Printf("--- world %d %s status=%s features=%v\n%s\n", i, worlds[i].Name, c.Status, worlds[i].Features, clip([]byte(sim.Unsubst(string(c.Stderr), "")), 500))
		if os.Getenv("VERIF_DUMP") != "" {
			fmt.Println(worlds[i].Files[worlds[i].Setup])
		}
	}
	fmt.Printf("accepted %d of %d in %v\n", acc, n, time.Since(t0))
	return 0
}

// runGenDump materialises gensim world number VERIF_ONLY of property
// VERIF_PROP (default C07) under VERIF_DUMPDIR. Development aid.
func runGenDump(cfg Config, args []string) int {
	prop := envOr("VERIF_PROP", "C07")
	var idx int
	fmt.Sscanf(cfg.Only, "%d", &idx)
	r := sim.Derive(cfg.Seed, "gensim", prop, idx)
	kind := "normal"
	switch {
	case prop == "C07" && r.Intn(100) < 15:
		kind = "noerr"
	case prop == "C10" && r.Intn(100) < 25:
		kind = "misfit"
	}
	w, m := gensim.Gen(r, kind)
	dir := envOr("VERIF_DUMPDIR", "/tmp/gendump")
	os.RemoveAll(dir)
	if err := w.Materialize(dir); err != nil {
		fmt.Println(err)
		return 2
	}
	fmt.Printf("world %d kind=%s at %s\n", idx, m.Kind, dir)
	return 0
}
