package checks

import (
	"fmt"
	"os"
	"time"

	"verifsim/internal/sim"
)

// runGenStat is a development aid: canonical result of N synthetic worlds.
func runGenStat(cfg Config, args []string) int {
	env, err := sim.Prepare(cfg.Repo)
	defer env.Cleanup()
	if err != nil {
		fmt.Println(err)
		return 2
	}
	n := cfg.N(40, 200)
	worlds, _ := BuildWorlds(cfg, "genstat", 0, n, 0, true, 0)
	st := NewStats()
	t0 := time.Now()
	canon, err := ComputeCanon(env, worlds, st)
	if err != nil {
		fmt.Println(err)
		return 2
	}
	acc := 0
	for i, c := range canon {
		if c.Accepted {
			acc++
			continue
		}
		fmt.Printf("--- world %d %s status=%s features=%v\n%s\n", i, worlds[i].Name, c.Status, worlds[i].Features, clip([]byte(sim.Unsubst(string(c.Stderr), "")), 500))
		if os.Getenv("VERIF_DUMP") != "" {
			fmt.Println(worlds[i].Files[worlds[i].Setup])
		}
	}
	fmt.Printf("accepted %d of %d in %v\n", acc, n, time.Since(t0))
	return 0
}
