package checks

import (
	"fmt"
	"os"
	"time"

	"verifsim/internal/gensim"
	"verifsim/internal/sim"
)

// runGenStat is a development aid: canonical result of N synthetic worlds.
func runGenStat(cfg Config, args []string) int {
	env, err := sim.Prepare(cfg.Repo)
	defer env.Cleanup()
	if err != nil {
		fmt.Println(err)
		return 2
	}
	n := cfg.N(40, 200)
	worlds, _ := BuildWorlds(cfg, "genstat", 0, n, 0, true, 0)
	st := NewStats()
	t0 := time.Now()
	canon, err := ComputeCanon(env, worlds, st)
	if err != nil {
		fmt.Println(err)
		return 2
	}
	acc := 0
	for i, c := range canon {
		if c.Accepted {
			acc++
			continue
		}
		fmt.Printf("--- world %d %s status=%s features=%v\n%s\n", i, worlds[i].Name, c.Status, worlds[i].Features, clip([]byte(sim.Unsubst(string(c.Stderr), "")), 500))
		if os.Getenv("VERIF_DUMP") != "" {
			fmt.Println(worlds[i].Files[worlds[i].Setup])
		}
	}
	fmt.Printf("accepted %d of %d in %v\n", acc, n, time.Since(t0))
	return 0
}

// runGenDump materialises gensim world number VERIF_ONLY of property
// VERIF_PROP (default C07) under VERIF_DUMPDIR. Development aid.
func runGenDump(cfg Config, args []string) int {
	prop := envOr("VERIF_PROP", "C07")
	var idx int
	fmt.Sscanf(cfg.Only, "%d", &idx)
	r := sim.Derive(cfg.Seed, "gensim", prop, idx)
	kind := "normal"
	switch {
	case prop == "C07" && r.Intn(100) < 15:
		kind = "noerr"
	}
	kind = envOr("VERIF_KIND", kind)
	w, m := gensim.Gen(r, kind)
	dir := envOr("VERIF_DUMPDIR", "/tmp/gendump")
	os.RemoveAll(dir)
	if err := w.Materialize(dir); err != nil {
		fmt.Println(err)
		return 2
	}
	fmt.Printf("world %d kind=%s at %s\n", idx, m.Kind, dir)
	return 0
}

// runTransparency is the seam-transparency self-check: fault-free runs with
// the seam-instrumented binary (empty plan) and with the plain binary must be
// indistinguishable (status, stdout, normalised stderr, output bytes, tree
// diff). A disagreement means the harness is wrong: exit 2, never a VIOLATION.
func runTransparency(cfg Config, args []string) int {
	env, err := sim.Prepare(cfg.Repo)
	defer env.Cleanup()
	if err != nil {
		fmt.Println("INFRASTRUCTURE:", err)
		return 2
	}
	worlds, err := BuildWorlds(cfg, "transparency", cfg.N(8, 16), cfg.N(24, 120), 30, true, 0)
	if err != nil {
		fmt.Println("INFRASTRUCTURE:", err)
		return 2
	}
	type out struct{ msg string }
	res, _ := sim.ParMap(len(worlds), sim.Workers(), nil, func(i int) out {
		r := sim.Derive(cfg.Seed, "transparency", i)
		iv := SetupInv(worlds[i])
		switch r.Intn(4) {
		case 0:
			iv.Dry, iv.Print = true, true
		case 1:
			iv.Log = true
		}
		var obs [2]*StepResult
		var roots [2]string
		for k, bin := range []string{"sim", "plain"} {
			root, err := env.NewWorldDir(worlds[i], "tp")
			if err != nil {
				return out{err.Error()}
			}
			defer env.DropWorldDir(root)
			st := Step{Op: "run", Inv: &iv, Bin: bin}
			if bin == "sim" {
				st.Plan = &sim.Plan{}
			}
			rs := ExecSteps(env, root, []Step{st}, nil)
			obs[k], roots[k] = &rs[0], root
		}
		a, b := obs[0], obs[1]
		if a.Obs == nil || b.Obs == nil {
			return out{"run failed to start"}
		}
		ea, eb := sim.Unsubst(string(a.Obs.Stderr), roots[0]), sim.Unsubst(string(b.Obs.Stderr), roots[1])
		switch {
		case a.Obs.Status != b.Obs.Status:
			return out{fmt.Sprintf("%s: status %s vs %s", worlds[i].Name, a.Obs.Status, b.Obs.Status)}
		case sim.Unsubst(string(a.Obs.Stdout), roots[0]) != sim.Unsubst(string(b.Obs.Stdout), roots[1]):
			// (stdout may name files: the line convergen prints for a reserved notation)
			return out{worlds[i].Name + ": stdout differs"}
		case ea != eb:
			return out{worlds[i].Name + ": stderr differs"}
		case string(a.OutBytes) != string(b.OutBytes):
			return out{worlds[i].Name + ": output bytes differ"}
		case fmt.Sprint(a.Pre.Diff(a.Post)) != fmt.Sprint(b.Pre.Diff(b.Post)):
			return out{worlds[i].Name + ": tree diff differs"}
		}
		return out{}
	})
	bad := 0
	for _, r := range res {
		if r.msg != "" {
			fmt.Println("TRANSPARENCY MISMATCH:", r.msg)
			bad++
		}
	}
	fmt.Printf("seam transparency: %d worlds, %d mismatches\n", len(worlds), bad)
	if bad > 0 {
		return 2
	}
	return 0
}

// runWorldDump materialises CLI world number VERIF_ONLY of property VERIF_PROP
// (same construction as the check uses) under VERIF_DUMPDIR. Development aid.
func runWorldDump(cfg Config, args []string) int {
	prop := envOr("VERIF_PROP", "C12")
	var idx int
	fmt.Sscanf(cfg.Only, "%d", &idx)
	var worlds []*sim.WorldSpec
	switch prop {
	case "C12":
		worlds, _ = BuildWorlds(cfg, "C12", cfg.N(3, 16), cfg.N(5, 44), 20, false, 6)
	case "C13":
		worlds, _ = BuildWorlds(cfg, "C13", cfg.N(6, 16), cfg.N(50, 400), 25, true, 0)
	case "C15":
		worlds, _ = BuildWorlds(cfg, "C15", cfg.N(5, 16), cfg.N(9, 44), 35, false, 0)
	case "C18":
		worlds, _ = BuildWorlds(cfg, "C18", cfg.N(2, 6), cfg.N(3, 10), 0, false, 0)
	}
	for i, w := range worlds {
		fmt.Printf("%d %s setup=%s expect=%s features=%v\n", i, w.Name, w.Setup, w.Expect, w.Features)
	}
	if idx < len(worlds) {
		dir := envOr("VERIF_DUMPDIR", "/tmp/worlddump")
		os.RemoveAll(dir)
		worlds[idx].Materialize(dir)
		fmt.Println("materialised", idx, "at", dir)
	}
	return 0
}
