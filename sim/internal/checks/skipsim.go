package checks

import (
	"fmt"
	"regexp"
	"sort"
	"strings"

	"verifsim/internal/sim"
)

// skipsim — the end-to-end half of C19: the same reference model as matchsim,
// but observed where the property says it can also be observed: in the skip
// decisions of the generated code. It reaches what the API-level histories
// cannot: how the notation parser builds, orders, merges or shares matchers
// (several :skip lines per method, :case / :case:off before, between and after
// them, several methods per file).

type SkipMethod struct {
	Name      string   `json:"name"`
	Notations []string `json:"notations"` // in order: ":case", ":case:off", ":skip <pattern>", ":literal <path> <n>", ":map <src> <path>"
	Patterns  []string `json:"patterns"`
	ExactCase bool     `json:"exact_case"` // the method's case rule (last :case / :case:off wins)
	// explicit sources: :literal and :map destinations always compare case-sensitively,
	// whatever the case rule; a :map wins over a :literal, the first of a kind wins
	Literals []SkipExplicit `json:"literals,omitempty"`
	Maps     []SkipExplicit `json:"maps,omitempty"`
}

type SkipExplicit struct {
	Path string `json:"path"` // destination path as written in the notation
	RHS  string `json:"rhs"`  // the literal text, or the source field
}

type SkipCase struct {
	World   *sim.WorldSpec `json:"world"`
	Methods []SkipMethod   `json:"methods"`
	Fields  []string       `json:"fields"` // top-level destination fields in declaration order
	Nested  []string       `json:"nested"` // fields of the nested struct
	Only    string         `json:"only,omitempty"`
}

var skipFieldPool = []string{"ID", "Id", "Name", "NAME", "Naſe", "Straße", "STRASSE", "Kelvin", "Kind", "Σίσυφος", "Status", "URL", "Url", "X1", "İd", "Tmp", "TmpFile", "Value"}
var skipNestedPool = []string{"X", "Y", "Id", "Name", "Kelvin"}

func isRe(p string) bool {
	return len(p) >= 2 && strings.HasPrefix(p, "/") && strings.HasSuffix(p, "/")
}

func skipModelMatch(p, ident string, exact bool) bool {
	if !isRe(p) {
		if exact {
			return p == ident
		}
		return strings.EqualFold(p, ident)
	}
	expr := p[1 : len(p)-1]
	if !exact {
		expr = "(?i)" + expr
	}
	return regexp.MustCompile(expr).MatchString(ident)
}

func genSkipPattern(r *sim.Rng, paths []string) string {
	target := sim.Pick(r, paths)
	mut := func(s string) string {
		switch r.Intn(5) {
		case 0:
			return strings.ToLower(s)
		case 1:
			return strings.ToUpper(s)
		case 2:
			return strings.ToTitle(s)
		}
		return s
	}
	var p string
	switch r.Intn(12) {
	case 0, 1, 2:
		p = mut(target)
	case 3:
		p = "/^" + regexp.QuoteMeta(mut(target)) + "$/"
	case 4:
		p = "/" + regexp.QuoteMeta(mut(target[:1+r.Intn(len([]rune(target)))%len(target)])) + "/"
	case 5:
		p = sim.Pick(r, []string{`/(?i)^tmp/`, `/(?-i)^TMP/`, `/(?i)id$/`, `/(?-i:ID)/`, `/(?i:name)$/`, `/(?s)^n/`})
	case 6:
		p = sim.Pick(r, []string{`/\d$/`, `/\D$/`, `/^\p{Lu}+$/`, `/^\P{Ll}/`, `/\S\.\S/`, `/^[A-Z][a-z]+$/`, `/[^\x00-\x7f]/`, `/\bId\b/`, `/^Nested\./`, `/^.{2}$/`})
	case 7:
		a, b := mut(sim.Pick(r, paths)), mut(sim.Pick(r, paths))
		p = "/^(" + regexp.QuoteMeta(a) + "|" + regexp.QuoteMeta(b) + ")$/"
	case 8:
		p = sim.Pick(r, []string{"Nested", "nested", "Nested.X", "nested.x", "NESTED.ID", "Nested.Kelvin", "nested.kelvin",
			// plain patterns whose regexp metacharacters must be taken literally
			"N.me", "Name$", "^Name", "Nested.", "Nested.*", "NestedXX", "Nested_X", "I[dD]", "X1?", "(Name)", "Tmp|Value", "Id()", "Nested.X()"})
	case 9:
		p = sim.Pick(r, []string{"strasse", "STRAßE", "straße", "naſe", "NASE", "kelvin", "KELVIN", "kelvin", "σίσυφοσ", "ΣΊΣΥΦΟΣ", "id", "ıd", "İD"})
	default:
		p = mut(target)
	}
	// must be one whitespace-free token that both case rules accept
	if strings.ContainsAny(p, " \t\n") || p == "" {
		return target
	}
	if isRe(p) {
		if _, err := regexp.Compile(p[1 : len(p)-1]); err != nil {
			return target
		}
		if _, err := regexp.Compile("(?i)" + p[1:len(p)-1]); err != nil {
			return target
		}
	}
	return p
}

// caseTwin returns a pattern that differs from p only in the case of its
// letters (so /\d$/ becomes /\D$/, Name becomes nAME): a different pattern with,
// in general, a different meaning - unless something keys matchers by a
// case-folded pattern text.
func caseTwin(p string) string {
	var b strings.Builder
	for _, r := range p {
		switch {
		case r >= 'a' && r <= 'z':
			b.WriteRune(r - 'a' + 'A')
		case r >= 'A' && r <= 'Z':
			b.WriteRune(r - 'A' + 'a')
		default:
			b.WriteRune(r)
		}
	}
	t := b.String()
	if isRe(t) {
		if _, err := regexp.Compile(t[1 : len(t)-1]); err != nil {
			return p
		}
		if _, err := regexp.Compile("(?i)" + t[1:len(t)-1]); err != nil {
			return p
		}
	}
	return t
}

func genSkipCase(cfg Config, i int) SkipCase {
	r := sim.Derive(cfg.Seed, "skipsim", i)
	idx := make([]int, len(skipFieldPool))
	for k := range idx {
		idx[k] = k
	}
	sim.Shuffle(r, idx)
	n := r.Range(5, 10)
	var fields []string
	for _, k := range idx[:n] {
		fields = append(fields, skipFieldPool[k])
	}
	nested := append([]string(nil), skipNestedPool[:r.Range(2, len(skipNestedPool))]...)
	var paths []string
	for _, f := range fields {
		paths = append(paths, f)
	}
	paths = append(paths, "Nested")
	for _, f := range nested {
		paths = append(paths, "Nested."+f)
	}
	c := SkipCase{Fields: fields, Nested: nested}
	nm := r.Range(2, 6)
	var used []string
	for m := 0; m < nm; m++ {
		sm := SkipMethod{Name: fmt.Sprintf("M%d", m), ExactCase: true}
		k := r.Range(1, 4)
		if r.Chance(1, 6) {
			k = r.Range(8, 14) // many patterns on one method: beyond any small-count path
		}
		for j := 0; j < k; j++ {
			if r.Chance(1, 3) {
				if r.Bool() {
					sm.Notations = append(sm.Notations, ":case:off")
					sm.ExactCase = false
				} else {
					sm.Notations = append(sm.Notations, ":case")
					sm.ExactCase = true
				}
			}
			p := genSkipPattern(r, paths)
			if len(used) > 0 && r.Chance(2, 5) {
				// the case twin of a pattern used earlier in this file
				p = caseTwin(sim.Pick(r, used))
			}
			used = append(used, p)
			sm.Patterns = append(sm.Patterns, p)
			sm.Notations = append(sm.Notations, ":skip "+p)
		}
		// explicit sources on (case variants of) top-level fields
		for j, ne := 0, r.Intn(3); j < ne; j++ {
			f := sim.Pick(r, fields)
			path := f
			switch r.Intn(4) {
			case 0:
				path = strings.ToLower(f)
			case 1:
				path = strings.ToUpper(f)
			}
			if strings.ContainsAny(path, " \t") {
				continue
			}
			if r.Bool() {
				lit := fmt.Sprint(9001 + m*10 + j)
				sm.Literals = append(sm.Literals, SkipExplicit{path, lit})
				sm.Notations = append(sm.Notations, ":literal "+path+" "+lit)
			} else {
				// a source field that the default name match could never pick for this destination
				var cands []string
				for _, sf := range fields {
					if !strings.EqualFold(sf, f) {
						cands = append(cands, sf)
					}
				}
				if len(cands) == 0 {
					continue
				}
				sf := sim.Pick(r, cands)
				sm.Maps = append(sm.Maps, SkipExplicit{path, sf})
				sm.Notations = append(sm.Notations, ":map "+sf+" "+path)
			}
		}
		if r.Chance(1, 3) {
			if r.Bool() {
				sm.Notations = append(sm.Notations, ":case:off")
				sm.ExactCase = false
			} else {
				sm.Notations = append(sm.Notations, ":case")
				sm.ExactCase = true
			}
		}
		if r.Chance(1, 2) {
			sim.Shuffle(r, sm.Notations)
			// the case rule is the last toggle in the final order
			sm.ExactCase = true
			for _, nline := range sm.Notations {
				if nline == ":case:off" {
					sm.ExactCase = false
				} else if nline == ":case" {
					sm.ExactCase = true
				}
			}
			// first-of-a-kind order follows the final order as well
			var ls, ms []SkipExplicit
			var ps []string
			for _, nline := range sm.Notations {
				f := strings.Fields(nline)
				switch f[0] {
				case ":literal":
					ls = append(ls, SkipExplicit{f[1], f[2]})
				case ":map":
					ms = append(ms, SkipExplicit{f[2], f[1]})
				case ":skip":
					ps = append(ps, f[1])
				}
			}
			sm.Literals, sm.Maps, sm.Patterns = ls, ms, ps
		}
		c.Methods = append(c.Methods, sm)
	}
	var b strings.Builder
	b.WriteString("//go:build convergen\n\npackage sk\n\n")
	structText := func(name, nestedType string) {
		fmt.Fprintf(&b, "type %s struct {\n", name)
		half := len(fields) / 2
		for k, f := range fields {
			if k == half {
				fmt.Fprintf(&b, "\tNested %s\n", nestedType)
			}
			fmt.Fprintf(&b, "\t%s int\n", f)
		}
		b.WriteString("}\n\n")
	}
	structText("Src", "SNested")
	structText("Dst", "DNested")
	for _, t := range []string{"SNested", "DNested"} {
		fmt.Fprintf(&b, "type %s struct {\n", t)
		for _, f := range nested {
			fmt.Fprintf(&b, "\t%s int\n", f)
		}
		b.WriteString("}\n\n")
	}
	b.WriteString("type Convergen interface {\n")
	for _, sm := range c.Methods {
		for _, nline := range sm.Notations {
			b.WriteString("\t// " + nline + "\n")
		}
		fmt.Fprintf(&b, "\t%s(*Src) *Dst\n", sm.Name)
	}
	b.WriteString("}\n")
	w := &sim.WorldSpec{Files: map[string]string{"mod/go.mod": "module example.com/k\n\ngo 1.19\n", "mod/sk/setup.go": b.String()}, Setup: "mod/sk/setup.go", Expect: "skipsim"}
	w.Name = "skipsim-" + w.Digest()
	c.World = w
	return c
}

var reFuncStart = regexp.MustCompile(`^func (\w+)\(`)
var reSkipLine = regexp.MustCompile(`^\s*// skip: dst\.(\S+)\s*$`)
var reAssignLine = regexp.MustCompile(`^\s*dst\.(\S+) = (.*)$`)
var reNoMatchLine = regexp.MustCompile(`^\s*// no match: dst\.(\S+)\s*$`)

func execSkip(env *sim.Env, c SkipCase) CaseResult {
	st := NewStats()
	res := CaseResult{Stats: st}
	root, err := env.NewWorldDir(c.World, "skip")
	if err != nil {
		res.Infra = err
		return res
	}
	defer env.DropWorldDir(root)
	iv := SetupInv(c.World)
	iv.Dry, iv.Print = true, true
	rs := ExecSteps(env, root, []Step{{Op: "run", Inv: &iv, Bin: "plain"}}, st)
	r := &rs[0]
	if r.Err != nil || r.Obs == nil || strings.HasPrefix(r.Obs.Status, "starterr") {
		res.Infra = fmt.Errorf("convergen run: %v", r.Err)
		return res
	}
	res.Log = fmt.Sprintf("skipsim world=%s status=%s out=%s", c.World.Digest(), r.Obs.Status, sim.HashBytes(r.Obs.Stdout))
	mkViol := func(m *SkipMethod, inv, sum string, extra map[string]string) *Violation {
		kinds := map[string]bool{}
		for _, p := range m.Patterns {
			if isRe(p) {
				kinds["regexp"] = true
				if strings.Contains(p, "(?") {
					kinds["inline-flag"] = true
				}
			} else {
				kinds["plain"] = true
			}
		}
		var ks []string
		for k := range kinds {
			ks = append(ks, k)
		}
		sort.Strings(ks)
		sig := map[string]string{"patterns": strings.Join(ks, "+"), "exact_case": fmt.Sprint(m.ExactCase), "nskip": fmt.Sprint(len(m.Patterns))}
		for k, v := range extra {
			sig[k] = v
		}
		return &Violation{Property: "C19", Invariant: inv, Sig: sig, Summary: sum,
			Detail: fmt.Sprintf("method %s notations: %q", m.Name, m.Notations)}
	}
	if r.Obs.Status != "exit:0" {
		// every pattern was validated against the standard library for both case rules
		res.Viol = append(res.Viol, mkViol(&c.Methods[0], "C19/valid-patterns-accepted",
			fmt.Sprintf("a setup file whose :skip patterns are all valid was rejected (%s): %s", r.Obs.Status, clip([]byte(sim.Unsubst(string(r.Obs.Stderr), root)), 300)), nil))
		return res
	}
	// observed decisions per generated function
	type obs struct {
		skipped, assigned, nomatch map[string]bool
		rhs                        map[string]string
	}
	seen := map[string]*obs{}
	var cur *obs
	for _, line := range strings.Split(string(r.Obs.Stdout), "\n") {
		if m := reFuncStart.FindStringSubmatch(line); m != nil {
			cur = &obs{map[string]bool{}, map[string]bool{}, map[string]bool{}, map[string]string{}}
			seen[m[1]] = cur
			continue
		}
		if cur == nil {
			continue
		}
		if m := reSkipLine.FindStringSubmatch(line); m != nil {
			cur.skipped[m[1]] = true
		} else if m := reNoMatchLine.FindStringSubmatch(line); m != nil {
			cur.nomatch[m[1]] = true
		} else if m := reAssignLine.FindStringSubmatch(line); m != nil {
			cur.assigned[m[1]] = true
			cur.rhs[m[1]] = strings.TrimSpace(m[2])
		}
	}
	for mi := range c.Methods {
		m := &c.Methods[mi]
		if c.Only != "" && c.Only != m.Name {
			continue
		}
		o := seen[m.Name]
		if o == nil {
			res.Viol = append(res.Viol, mkViol(m, "C19/skip-decision", "no generated function "+m.Name+" in the output", nil))
			continue
		}
		should := func(path string) bool {
			for _, p := range m.Patterns {
				if skipModelMatch(p, path, m.ExactCase) {
					return true
				}
			}
			return false
		}
		// the reference traversal: a skipped struct field is not descended into
		wantSkip, wantAssign := map[string]bool{}, map[string]bool{}
		half := len(c.Fields) / 2
		for k, f := range c.Fields {
			if k == half {
				if should("Nested") {
					wantSkip["Nested"] = true
				} else {
					for _, nf := range c.Nested {
						if should("Nested." + nf) {
							wantSkip["Nested."+nf] = true
						} else {
							wantAssign["Nested."+nf] = true
						}
					}
				}
			}
			if should(f) {
				wantSkip[f] = true
			} else {
				wantAssign[f] = true
			}
		}
		st.Inc("n:methods_checked")
		st.Add("n:field_decisions", len(wantSkip)+len(wantAssign))
		if len(wantSkip) > 0 {
			st.Inc("n:methods_with_a_skip")
		}
		st.Seen("nontrivial", fmt.Sprintf("%q|%v|%d", m.Notations, m.ExactCase, len(wantSkip)))
		var diffs []string
		for p := range wantSkip {
			if !o.skipped[p] {
				diffs = append(diffs, "should be skipped, is not: "+p)
			}
		}
		for p := range o.skipped {
			if !wantSkip[p] {
				diffs = append(diffs, "skipped, should not be: "+p)
			}
		}
		// explicit sources: applied iff the destination path is EXACTLY the field, under either case rule
		for _, f := range c.Fields {
			if wantSkip[f] {
				continue
			}
			want := ""
			for _, e := range m.Maps {
				if e.Path == f {
					want = "src." + e.RHS
					break
				}
			}
			if want == "" {
				for _, e := range m.Literals {
					if e.Path == f {
						want = e.RHS
						break
					}
				}
			}
			got := o.rhs[f]
			explicit := map[string]bool{}
			for _, e := range m.Maps {
				explicit["src."+e.RHS] = true
			}
			for _, e := range m.Literals {
				explicit[e.RHS] = true
			}
			st.Inc("n:explicit_source_decisions")
			switch {
			case want != "" && got != want:
				diffs = append(diffs, fmt.Sprintf("explicit source not honoured: dst.%s = %s, notation says %s", f, got, want))
			case want == "" && explicit[got] && (len(m.Literals) > 0 || len(m.Maps) > 0):
				// the value of a :map/:literal written for ANOTHER spelling of the path was applied
				// ... unless it simply is what the default name match yields for this field
				name := strings.TrimPrefix(got, "src.")
				isOwn := strings.HasPrefix(got, "src.") && (name == f || (!m.ExactCase && strings.EqualFold(name, f)))
				if !isOwn {
					diffs = append(diffs, fmt.Sprintf("explicit source applied although its path differs in case: dst.%s = %s", f, got))
				}
			}
		}
		sort.Strings(diffs)
		if len(diffs) > 0 {
			res.Viol = append(res.Viol, mkViol(m, "C19/skip-decision",
				fmt.Sprintf("%s (case rule exact=%v, patterns %q): %s", m.Name, m.ExactCase, m.Patterns, strings.Join(diffs, "; ")), map[string]string{"first": strings.SplitN(diffs[0], ":", 2)[0]}))
		}
	}
	if len(st.Samples) == 0 {
		st.Samples = append(st.Samples, map[string]any{"fields": c.Fields, "nested": c.Nested, "method": c.Methods[0].Name, "notations": c.Methods[0].Notations, "case_rule_exact": c.Methods[0].ExactCase})
	}
	res.Log += fmt.Sprintf(" viol=%d", len(res.Viol))
	return res
}

func shrinkSkip(c SkipCase) []SkipCase {
	if c.Only != "" {
		return nil
	}
	var out []SkipCase
	for _, m := range c.Methods {
		d := c
		d.Only = m.Name
		out = append(out, d)
	}
	return out
}
