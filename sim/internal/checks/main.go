package checks

import (
	"fmt"
	"strings"
)

// Main dispatches `verifsim <property> <quick|thorough|replay FILE>`.
func Main(args []string) int {
	if len(args) < 2 {
		fmt.Println("usage: verifsim <C07|C10|C12|C13|C15|C18|C19|selftest> <quick|thorough|replay FILE>")
		return 2
	}
	prop := strings.ToUpper(args[0])
	mode := args[1]
	tier := mode
	if mode == "replay" {
		tier = "quick"
	}
	cfg := LoadConfig(tier)
	rest := args[1:]
	switch prop {
	case "C15":
		return runC15(cfg, rest)
	case "C12":
		return runC12(cfg, rest)
	case "C13":
		return runC13(cfg, rest)
	case "C18":
		return runC18(cfg, rest)
	case "C19":
		return runC19(cfg, rest)
	case "C07", "C10":
		return runGen(cfg, rest, prop)
	case "TRANSPARENCY":
		return runTransparency(cfg, rest)
	case "WORLDDUMP":
		return runWorldDump(cfg, rest)
	case "GENDUMP":
		return runGenDump(cfg, rest)
	case "GENSTAT":
		return runGenStat(cfg, rest)
	}
	fmt.Printf("unknown property %q\n", prop)
	return 2
}
