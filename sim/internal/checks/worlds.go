package checks

import (
	"fmt"
	"regexp"
	"strings"
	"sync"

	"verifsim/internal/sim"
)

// WorldSet is the seeded list of worlds a batch draws from, with the
// canonical (no flags, nothing at the output path) result of each.
type WorldSet struct {
	Worlds []*sim.WorldSpec
	Canon  []*CanonResult
}

type CanonResult struct {
	Status   string
	Out      []byte
	HasOut   bool
	Stderr   []byte
	Accepted bool
}

// BuildWorlds returns nFix fixture worlds (seeded choice) and nSyn synthetic
// worlds of which about rejectPct percent are of a rejected family.
func BuildWorlds(cfg Config, prop string, nFix, nSyn, rejectPct int, rich bool, variants int) ([]*sim.WorldSpec, error) {
	var out []*sim.WorldSpec
	if nFix > 0 {
		fx, err := sim.FixtureWorlds(cfg.Repo)
		if err != nil {
			return nil, fmt.Errorf("fixture worlds: %w", err)
		}
		r := sim.Derive(cfg.Seed, prop, "fixture-choice")
		sim.Shuffle(r, fx)
		if nFix < len(fx) {
			fx = fx[:nFix]
		}
		out = append(out, fx...)
	}
	// rejected families are dealt round-robin, starting with the one that fails
	// last (at formatting, i.e. after everything but the write), so that even a
	// small batch holds a late failure; likewise the first accepted synthetic
	// worlds are forced to have a dotted setup file name / a nested package dir
	late := []string{"bad-literal", "qualifier-by-package-name", "gomod-lagging", "unknown-converter", "syntax-error", "non-struct-operand", "reverse-without-arg", "unresolved-type", "no-interface", "bad-style"}
	nRej, nAcc := 0, 0
	for i := 0; i < nSyn; i++ {
		r := sim.Derive(cfg.Seed, prop, "world", i)
		opts := sim.GenOpts{Rich: rich}
		if rich && i%5 == 3 {
			opts.Clean = true // a fifth of the rich worlds is free of diagnostics
		}
		if !opts.Clean && (r.Intn(100) < rejectPct || (rejectPct > 0 && i == 1)) {
			opts.Reject = late[nRej%len(late)]
			nRej++
		} else if !opts.Clean {
			switch nAcc {
			case 0:
				opts.SetupName = "my.setup.go"
				opts.NearMiss = true
				opts.PercentText = true
				opts.ForceHooks = true
				opts.Surroundings = 3
			case 1:
				opts.Nested = true
				opts.GetterTwin = true
				opts.NoSiblings = true
				opts.Big = 2
				opts.Surroundings = 1
				opts.ThirdParty = true
			case 2:
				opts.SetupName = "user.gorm.go"
				opts.IndirectTwin = true
				opts.CRLF = true
				opts.DotGoDir = true
				opts.Competing = true
				opts.Big = 1
				opts.Surroundings = 2
			case 3:
				opts.SetupName = "catalog.go"
				opts.GetterTwin = true
				opts.IndirectTwin = true
				opts.Competing = true
				opts.Collide = true
			}
			nAcc++
		}
		out = append(out, sim.GenWorld(r, opts, variants))
	}
	return out, nil
}

// SetupInv is the canonical invocation: cwd = package dir, input = base name.
func SetupInv(ws *sim.WorldSpec) Invocation {
	cwd, in, _ := InputForm("rel-pkgdir", "{W}/"+ws.Setup)
	return Invocation{Cwd: cwd, Input: in, OutPath: ResolveOut(cwd, in, "", "")}
}

// ComputeCanon runs every world once with the plain binary, no flags, in a
// pristine materialisation.
func ComputeCanon(env *sim.Env, worlds []*sim.WorldSpec, st *Stats) ([]*CanonResult, error) {
	var mu sync.Mutex
	var firstErr error
	res, _ := sim.ParMap(len(worlds), sim.Workers(), nil, func(i int) *CanonResult {
		root, err := env.NewWorldDir(worlds[i], "canon")
		if err != nil {
			mu.Lock()
			firstErr = err
			mu.Unlock()
			return nil
		}
		defer env.DropWorldDir(root)
		iv := SetupInv(worlds[i])
		rs := ExecSteps(env, root, []Step{{Op: "run", Inv: &iv, Bin: "plain"}}, st)
		r := rs[0]
		if r.Err != nil || r.Obs == nil {
			mu.Lock()
			firstErr = fmt.Errorf("canonical run of %s: %v", worlds[i].Name, r.Err)
			mu.Unlock()
			return nil
		}
		c := &CanonResult{Status: r.Obs.Status, Out: r.OutBytes, HasOut: r.OutExists, Stderr: r.Obs.Stderr}
		c.Accepted = r.Obs.Status == "exit:0" && r.OutExists
		return c
	})
	if firstErr != nil {
		return nil, firstErr
	}
	for i, c := range res {
		if c == nil {
			return nil, fmt.Errorf("no canonical result for world %d", i)
		}
		if strings.HasPrefix(c.Status, "starterr") || c.Status == "timeout" {
			return nil, fmt.Errorf("canonical run of %s: %s", worlds[i].Name, c.Status)
		}
		if c.Accepted {
			st.Inc("n:worlds_accepted")
		} else {
			st.Inc("n:worlds_rejected")
		}
	}
	return res, nil
}

var rePkg = regexp.MustCompile(`(?m)^package\s+(\w+)`)

func pkgNameOf(src string) string {
	m := rePkg.FindStringSubmatch(src)
	if m == nil {
		return "p"
	}
	return m[1]
}
