package sim

import (
	"crypto/sha256"
	"encoding/hex"
	"fmt"
	"io/fs"
	"os"
	"path/filepath"
	"sort"
	"strings"
)

// WorldSpec is a self-contained directory tree given literally (relative path
// -> bytes) so that a replay file never depends on a generator version.
// Layout convention (relative to the world root):
//
//	mod/...        the Go module the user works in
//	outside/       a directory outside the module
//	elsewhere/     an unrelated working directory
//	tmp/           TMPDIR of the run
type WorldSpec struct {
	Name  string            `json:"name"`
	Files map[string]string `json:"files"`
	// Setup is the path (relative to the world root) of the setup file.
	Setup string `json:"setup"`
	// Variants are alternative contents of the setup file ("the user edited
	// the setup file"). Variant 0 is Files[Setup].
	Variants []string `json:"variants,omitempty"`
	// Expect is what the generator intended: "accept" or "reject:<family>".
	// Informational only; oracles never use it to decide.
	Expect string `json:"expect,omitempty"`
	// Features lists what the generator put in (informational, for coverage).
	Features []string `json:"features,omitempty"`
}

func (w *WorldSpec) Clone() *WorldSpec {
	c := *w
	c.Files = make(map[string]string, len(w.Files))
	for k, v := range w.Files {
		c.Files[k] = v
	}
	c.Variants = append([]string(nil), w.Variants...)
	c.Features = append([]string(nil), w.Features...)
	return &c
}

// Digest identifies the spec content.
func (w *WorldSpec) Digest() string {
	keys := make([]string, 0, len(w.Files))
	for k := range w.Files {
		keys = append(keys, k)
	}
	sort.Strings(keys)
	h := sha256.New()
	for _, k := range keys {
		fmt.Fprintf(h, "%s\x00%d\x00%s\x00", k, len(w.Files[k]), w.Files[k])
	}
	fmt.Fprintf(h, "setup=%s", w.Setup)
	return hex.EncodeToString(h.Sum(nil))[:16]
}

// Materialize writes the tree under root (which must not exist or be empty).
func (w *WorldSpec) Materialize(root string) error {
	for _, d := range []string{"mod", "outside", "elsewhere", "tmp"} {
		if err := os.MkdirAll(filepath.Join(root, d), 0o755); err != nil {
			return err
		}
	}
	keys := make([]string, 0, len(w.Files))
	for k := range w.Files {
		keys = append(keys, k)
	}
	sort.Strings(keys)
	for _, k := range keys {
		p := filepath.Join(root, filepath.FromSlash(k))
		if err := os.MkdirAll(filepath.Dir(p), 0o755); err != nil {
			return err
		}
		if strings.HasSuffix(k, "/") {
			if err := os.MkdirAll(p, 0o755); err != nil {
				return err
			}
			continue
		}
		if err := os.WriteFile(p, []byte(w.Files[k]), 0o644); err != nil {
			return err
		}
	}
	return nil
}

// Entry is what a snapshot records about one directory entry. Modification
// times are deliberately not part of it.
type Entry struct {
	Type string `json:"type"` // "file", "dir", "symlink", "other"
	Mode uint32 `json:"mode"`
	Size int64  `json:"size"`
	Hash string `json:"hash,omitempty"` // sha256 of content, or link target
}

type Snapshot map[string]Entry

// TakeSnapshot walks the whole world as the kernel shows it.
func TakeSnapshot(root string) (Snapshot, error) {
	snap := Snapshot{}
	err := filepath.WalkDir(root, func(p string, d fs.DirEntry, err error) error {
		if err != nil {
			return err
		}
		rel, _ := filepath.Rel(root, p)
		rel = filepath.ToSlash(rel)
		if rel == "." {
			return nil
		}
		info, err := os.Lstat(p)
		if err != nil {
			return err
		}
		e := Entry{Mode: uint32(info.Mode().Perm())}
		switch {
		case info.Mode().IsRegular():
			e.Type = "file"
			e.Size = info.Size()
			b, err := os.ReadFile(p)
			if err != nil {
				return err
			}
			s := sha256.Sum256(b)
			e.Hash = hex.EncodeToString(s[:])
		case info.IsDir():
			e.Type = "dir"
		case info.Mode()&os.ModeSymlink != 0:
			e.Type = "symlink"
			t, _ := os.Readlink(p)
			e.Hash = t
		default:
			e.Type = "other"
		}
		snap[rel] = e
		return nil
	})
	return snap, err
}

// Diff lists the paths whose entry differs, sorted: "+p" created, "-p"
// removed, "~p" changed.
func (a Snapshot) Diff(b Snapshot) []string {
	var out []string
	for p, ea := range a {
		eb, ok := b[p]
		if !ok {
			out = append(out, "-"+p)
		} else if ea != eb {
			out = append(out, "~"+p)
		}
	}
	for p := range b {
		if _, ok := a[p]; !ok {
			out = append(out, "+"+p)
		}
	}
	sort.Slice(out, func(i, j int) bool { return out[i][1:] < out[j][1:] || (out[i][1:] == out[j][1:] && out[i] < out[j]) })
	return out
}

func HashBytes(b []byte) string {
	s := sha256.Sum256(b)
	return hex.EncodeToString(s[:])[:16]
}

// ReadMaybe returns the bytes of a file and whether it exists as a regular file.
func ReadMaybe(p string) ([]byte, bool) {
	info, err := os.Lstat(p)
	if err != nil || !info.Mode().IsRegular() {
		return nil, false
	}
	b, err := os.ReadFile(p)
	if err != nil {
		return nil, false
	}
	return b, true
}
