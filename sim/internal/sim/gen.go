package sim

import (
	"fmt"
	"sort"
	"strings"
)

// The synthetic workload generator for the CLI-level properties (C12, C13,
// C15, C18). It stays inside the documented notations; it is a *workload*, not
// an oracle for what the output should contain. Every decision is drawn from
// the Rng it is given.

type fieldKind struct {
	name       string
	modelType  string // type on the model side
	domainType string // type on the domain side
}

var fieldAlphabet = []fieldKind{
	{"ID", "int64", "int64"},
	{"Name", "string", "string"},
	{"Email", "string", "string"},
	{"Age", "int", "int32"},
	{"Tags", "[]string", "[]string"},
	{"Nums", "[]int", "[]int64"},
	{"Status", "string", "Status"},
	{"Addr", "Address", "Address"},
	{"Score", "*int", "*int"},
	{"Active", "bool", "bool"},
	{"Ratio", "float64", "float32"},
	{"Note", "string", "*string"},
	{"Created", "time.Time", "time.Time"},
	{"Meta", "map[string]string", "map[string]string"},
	{"Owner", "*Address", "*Address"},
	{"Any", "interface{}", "interface{}"},
	{"Count", "uint", "uint"},
	{"Title", "string", "string"},
	// fields that differ from another one only in letter case (lookups under :case:off)
	{"NAME", "string", "string"},
	{"Id", "int64", "int64"},
	{"email", "string", "string"},
}

var structNames = []string{"User", "Item", "Order", "Pet"}

// GenOpts selects the family of world to generate.
type GenOpts struct {
	Reject    string // "" for a well-formed world, else a rejected family
	Rich      bool   // bias towards several imports / interfaces (C13)
	SetupName string // force the setup file's name (e.g. "my.setup.go")
	Nested    bool   // force a nested package directory
	// NoSiblings: the package directory holds no other Go file of the package
	// (so that a variant may rename the package)
	NoSiblings bool
	// DotGoDir: a directory on the way to the setup file is called "acme.go"
	DotGoDir bool
	// Clean: only fields whose types are identical on both sides, no layout that
	// draws a warning: a run over such a world is free of diagnostics
	Clean bool
	// ForceHooks: a hook from a blank-imported package is certainly used (so that
	// goimports has to add an import on its own) and a second package of the same
	// name exporting the same functions exists elsewhere in the module
	ForceHooks bool
	// Competing: two :map rules compete for one destination field in every method
	// that copies a struct with that field
	Competing bool
	// Big: 1 = structs of 16-21 fields; 2 = in addition 130-160 methods in the
	// first interface (thresholds, buffers and chunk sizes have two sides)
	Big int
	// Collide: the first methods of the first two interfaces have the same name
	Collide bool
	// ThirdParty: the setup file imports a package of another (required, locally
	// replaced) module
	ThirdParty bool
	// Surroundings: 1..3 force a project notation file / a settings file with a header
	// / a state directory at the module root
	Surroundings int
	// NearMiss: forces the near-miss field names
	NearMiss bool
	// CRLF: the setup file (and its variants) has CRLF line terminators
	CRLF bool
	// GetterTwin: forces the getter twins across files
	GetterTwin bool
	// PercentText / IndirectTwin: force the per-cent text / the same-named indirect packages
	PercentText  bool
	IndirectTwin bool
}

var RejectFamilies = []string{
	"unknown-converter", "reverse-without-arg", "non-struct-operand", "syntax-error",
	"unresolved-type", "no-interface", "bad-literal", "bad-style", "gomod-lagging", "qualifier-by-package-name",
}

type genMethod struct {
	name      string
	notations []string
	sig       string
	doc       []string
}

type genIntf struct {
	name      string
	marked    bool
	notations []string
	methods   []genMethod
	lead      []string // comment lines before
}

// GenWorld produces one synthetic world. variantCount > 0 adds that many
// alternative setup files (the user edited the setup file).
func GenWorld(r *Rng, opts GenOpts, variantCount int) *WorldSpec {
	w := &WorldSpec{Files: map[string]string{}}
	feat := map[string]bool{}
	// the user's go.mod is valid but not always what `go mod tidy` would write
	switch r.Intn(6) {
	case 0:
		w.Files["mod/go.mod"] = "module example.com/w\n" // no go directive
		feat["gomod-no-go-directive"] = true
	case 1:
		w.Files["mod/go.mod"] = "module example.com/w\n\ngo 1.19\n\nreplace example.com/unused => ../outside/unused\n"
		w.Files["outside/unused/go.mod"] = "module example.com/unused\n\ngo 1.19\n"
		feat["gomod-replace-without-require"] = true
	case 2:
		w.Files["mod/go.mod"] = "// the module of the mapping layer\nmodule example.com/w\n\ngo 1.19\n\nrequire ()\n"
		feat["gomod-empty-require-block"] = true
	default:
		w.Files["mod/go.mod"] = "module example.com/w\n\ngo 1.19\n"
	}

	sr := Derive(int64(r.Uint64()), "surroundings")
	thirdParty := opts.Reject == "" && (opts.ThirdParty || sr.Chance(1, 6))
	surroundings := sr.Intn(9) // 0..2: something is there, else nothing
	if opts.Surroundings > 0 {
		surroundings = opts.Surroundings - 1
	}
	// near-miss names: one side of a struct pair has Memo, the other MemoA and
	// MemoB (same type): no match in either direction, and two equally close
	// candidates for whoever starts guessing what the user meant
	nearMiss := !opts.Clean && (opts.NearMiss || sr.Chance(1, 3))
	if sr.Chance(1, 10) {
		opts.CRLF = true
	}
	// getter twins: every data struct has a getter for a field that only the other
	// side has (domain: Label(), model: Caption()), and a second getter differing
	// from it only in letter case, declared in ANOTHER file of the package that
	// sorts before or after the first; half of the methods then get :getter and
	// :case:off together, so that both getters fit the field
	// text with per-cent signs and backslashes in what the setup file carries over
	// (a format constant, a raw string, the % operator, a comment): whoever prints
	// the code must not take it for a format string
	percentText := opts.PercentText || sr.Chance(1, 2)
	// indirect twins: the data structs of the two sides have a field whose type
	// comes from a package that the setup file does not import itself, and the two
	// packages have the same name (domain/item, model/item)
	indirectTwin := !opts.Clean && (opts.IndirectTwin || sr.Chance(1, 3))
	getterTwin := !opts.Clean && (opts.GetterTwin || sr.Chance(1, 3))
	twinFile := Pick(sr, []string{"aa_deprecated.go", "zz_deprecated.go"})
	// --- data packages
	nStructs := r.Range(1, 3)
	names := append([]string(nil), structNames...)
	Shuffle(r, names)
	names = names[:nStructs]
	sort.Strings(names)
	type sdef struct {
		name   string
		fields []fieldKind
	}
	var defs []sdef
	needTime := false
	for _, n := range names {
		k := r.Range(3, 8)
		if opts.Big > 0 {
			k = 16 + r.Intn(6) // wide structs: beyond any small-size fast path
		}
		var idx []int
		for i := range fieldAlphabet {
			if !opts.Clean || (fieldAlphabet[i].modelType == fieldAlphabet[i].domainType && !strings.Contains(fieldAlphabet[i].modelType, "Address")) {
				idx = append(idx, i)
			}
		}
		Shuffle(r, idx)
		if k > len(idx) {
			k = len(idx)
		}
		idx = idx[:k]
		if opts.Competing {
			// make sure the fields that the competing :map rules need are there
			for want := range fieldAlphabet {
				switch fieldAlphabet[want].name {
				case "Name", "Email", "Title":
					has := false
					for _, i := range idx {
						has = has || i == want
					}
					if !has {
						idx = append(idx, want)
					}
				}
			}
		}
		sort.Ints(idx)
		var fs []fieldKind
		for _, i := range idx {
			fs = append(fs, fieldAlphabet[i])
			if fieldAlphabet[i].name == "Created" {
				needTime = true
			}
		}
		defs = append(defs, sdef{n, fs})
	}
	render := func(pkg string, domain bool) string {
		var b strings.Builder
		fmt.Fprintf(&b, "package %s\n\n", pkg)
		if needTime {
			b.WriteString("import \"time\"\n\n")
		}
		if indirectTwin {
			fmt.Fprintf(&b, "import \"example.com/w/%s/item\"\n\n", pkg)
		}
		if domain {
			b.WriteString("type Status string\n\nfunc (s Status) String() string { return string(s) }\n\n")
			b.WriteString("func NewStatus(s string) (Status, error) { return Status(s), nil }\n\n")
			b.WriteString("type Address struct {\n\tStreet string\n\tCity   string\n\tZip    int32\n}\n\n")
		} else {
			b.WriteString("type Address struct {\n\tStreet string\n\tCity   string\n\tZip    int\n}\n\n")
		}
		for _, d := range defs {
			fmt.Fprintf(&b, "type %s struct {\n", d.name)
			for _, f := range d.fields {
				t := f.modelType
				if domain {
					t = f.domainType
				}
				fmt.Fprintf(&b, "\t%s %s\n", f.name, t)
			}
			if nearMiss && domain {
				b.WriteString("\tMemo string\n\tRemark1 int\n")
			} else if nearMiss {
				b.WriteString("\tMemoA string\n\tMemoB string\n\tRemark int\n\tRemark2 int\n")
			}
			if indirectTwin {
				b.WriteString("\tItems []item.Item\n\tFirst item.Item\n")
			}
			if getterTwin && domain {
				b.WriteString("\tCaption string\n")
			} else if getterTwin {
				b.WriteString("\tLabel string\n")
			}
			b.WriteString("}\n\n")
			if getterTwin && domain {
				fmt.Fprintf(&b, "func (x %s) Label() string { return \"label\" }\n\n", d.name)
			} else if getterTwin {
				fmt.Fprintf(&b, "func (x %s) Caption() string { return \"caption\" }\n\n", d.name)
			}
			if domain && r.Chance(1, 3) {
				fmt.Fprintf(&b, "func (x *%s) DisplayName() string { return \"n\" }\n\n", d.name)
			}
		}
		return b.String()
	}
	w.Files["mod/domain/domain.go"] = render("domain", true)
	w.Files["mod/model/model.go"] = render("model", false)
	if indirectTwin {
		feat["same-named-indirect-packages"] = true
		w.Files["mod/domain/item/item.go"] = "package item\n\n// Item as the domain sees it.\ntype Item struct {\n\tID   int64\n\tName string\n}\n"
		w.Files["mod/model/item/item.go"] = "package item\n\n// Item as it is stored.\ntype Item struct {\n\tID   int64\n\tName string\n}\n"
	}
	if getterTwin {
		feat["getter-twins-across-files"] = true
		dt, mt := "package domain\n\n", "package model\n\n"
		for _, d := range defs {
			dt += fmt.Sprintf("// Deprecated: use Label.\nfunc (x %s) LABEL() string { return \"LABEL\" }\n\n", d.name)
			mt += fmt.Sprintf("// Deprecated: use Caption.\nfunc (x %s) CAPTION() string { return \"CAPTION\" }\n\n", d.name)
		}
		w.Files["mod/domain/"+twinFile] = dt
		w.Files["mod/model/"+twinFile] = mt
	}
	w.Files["mod/domain/probe.go"] = "package domain\n\ntype Probe struct {\n\tID   int64\n\tOnly string\n}\n"
	w.Files["mod/model/probe.go"] = "package model\n\ntype Probe struct {\n\tID    int64\n\tOther string\n\tThird int\n}\n"

	// --- same-last-element packages (import alias pressure)
	twoTypes := opts.Rich && r.Chance(2, 3) || r.Chance(1, 4)
	if twoTypes {
		feat["same-last-element-imports"] = true
		w.Files["mod/a/types/types.go"] = "package types\n\ntype Base struct {\n\tID  int64\n\tRev int\n}\n"
		w.Files["mod/b/types/types.go"] = "package types\n\ntype Base struct {\n\tID  int64\n\tRev int\n}\n"
	}
	hooksPkg := r.Chance(1, 3) || opts.ForceHooks
	if hooksPkg {
		feat["imported-hook"] = true
	}
	legacyHooks := hooksPkg && (r.Chance(1, 2) || opts.ForceHooks)
	if legacyHooks {
		feat["same-named-hooks-package-elsewhere"] = true
	}
	twoBlankHooks := legacyHooks && r.Chance(1, 2) && !opts.ForceHooks
	if twoBlankHooks {
		feat["two-blank-imports-same-base"] = true
	}
	// a blank import whose last path element equals the name of a regular
	// import, with a notation that refers to that name (import-table pressure)
	blankSameBase := opts.Rich && r.Chance(1, 2) || r.Chance(1, 6)
	blankFirst := r.Bool()
	// converter interface embedding interfaces that are declared in OTHER files of
	// the package, each with a method that draws a warning (diagnostics whose
	// positions lie in several files)
	// unusual but legal layout inside the interface bodies (blank lines, separator
	// and block comments between methods, trailing comments); convergen may well
	// reject such a file - deterministically, which is all the CLI properties need
	layoutNoise := opts.Rich && r.Chance(1, 6)
	embedSiblings := (opts.Rich && r.Chance(1, 3) || r.Chance(1, 10)) && !opts.Clean && !opts.NoSiblings

	// --- converter package
	pkgName := Pick(r, []string{"conv", "converter", "c", "mapping"})
	// names matter to path derivation: several dots, stems ending in characters
	// of the extension, a stem that already contains ".gen", very short names
	setupName := Pick(r, []string{"setup.go", "setup.go", "conv.go", "my.setup.go", "gen_setup.go", "catalog.go", "mapping.go", "geo.go", "a.go", "x.gen.go", "Setup-v2.go", "go.go", "user.gorm.go", "conv.gop.go"})
	dir := "mod/" + pkgName
	if opts.SetupName != "" {
		setupName = opts.SetupName
	}
	if r.Chance(1, 4) || opts.Nested {
		dir = "mod/internal/" + pkgName
		feat["nested-dir"] = true
	}
	if r.Chance(1, 10) || opts.DotGoDir {
		// ".go" occurs in the path before the extension
		dir = "mod/acme.go/" + pkgName
		feat["dot-go-directory"] = true
	}
	if strings.Count(setupName, ".") > 1 {
		feat["dotted-setup-name"] = true
	}
	w.Setup = dir + "/" + setupName

	domAlias, modAlias := "domain", "model"
	if r.Chance(1, 3) {
		domAlias = Pick(r, []string{"d", "dom", "dm"})
		feat["import-alias"] = true
	}
	if r.Chance(1, 3) && !blankSameBase {
		modAlias = Pick(r, []string{"mx", "m", "mdl"})
		feat["import-alias"] = true
	}
	if blankSameBase {
		feat["blank-import-same-base"] = true
		w.Files["mod/audit/model/model.go"] = "package model\n\n// ToLabel of the audit flavour can fail.\nfunc ToLabel(id int64) (string, error) {\n\treturn \"audit\", nil\n}\n"
		w.Files["mod/model/label.go"] = "package model\n\ntype Tagged struct {\n\tID    int64\n\tLabel string\n}\n\nfunc ToLabel(id int64) string {\n\treturn \"label\"\n}\n"
		w.Files["mod/domain/label.go"] = "package domain\n\ntype Tagged struct {\n\tID    int64\n\tLabel string\n}\n"
	}

	setupSeed := int64(r.Uint64())
	build := func(variant int) string {
		vr := Derive(setupSeed, "setup")
		modAlias := modAlias
		if variant == 6 && !blankSameBase {
			// variant 6: the import of the model package got another local name
			if modAlias == "model" {
				modAlias = "mdl6"
			} else {
				modAlias = "model"
			}
		} // same stream for every variant: variants differ only by the knobs below
		var imports []string
		imp := func(alias, path string) {
			if alias == "" || alias == path[strings.LastIndex(path, "/")+1:] {
				imports = append(imports, fmt.Sprintf("\t%q", path))
			} else {
				imports = append(imports, fmt.Sprintf("\t%s %q", alias, path))
			}
		}
		imp(domAlias, "example.com/w/domain")
		imp(modAlias, "example.com/w/model")
		helpers := &strings.Builder{}
		if percentText {
			helpers.WriteString("// progress is reported as \"%d of %d (%5.1f%%)\"; a lone % and a %!v(MISSING) are text like any other\nconst progressFormat = \"%d of %d (%5.1f%%)\\t\\n\"\n\nfunc remainder7(v int) int { return v % 7 }\n\nvar rawPattern = `%s\\d+%[1]q`\n\n")
		}
		var intfs []genIntf
		usedStd := map[string]bool{}

		if twoTypes {
			imp("atypes", "example.com/w/a/types")
			imp("btypes", "example.com/w/b/types")
		}
		if hooksPkg {
			imports = append(imports, "\t_ \"example.com/w/"+strings.TrimPrefix(dir, "mod/")+"/hooks\"")
			if twoBlankHooks {
				// a second blank import ending in the same path element, listed after the
				// first in half of the cases (the import list is shuffled below)
				imports = append(imports, "\t_ \"example.com/w/legacy/hooks\"")
			}
		}

		nIntf := 1
		if opts.Rich && vr.Chance(1, 2) || vr.Chance(1, 5) {
			nIntf = vr.Range(2, 3)
			feat["multi-interface"] = true
		}
		if opts.Collide && nIntf < 2 {
			nIntf = 2
			feat["multi-interface"] = true
		}
		mcount := 0
		for ii := 0; ii < nIntf; ii++ {
			gi := genIntf{}
			if ii == 0 && vr.Chance(3, 4) {
				gi.name = "Convergen"
			} else {
				gi.name = Pick(vr, []string{"Mapper", "Transport", "Storage", "Conv"}) + fmt.Sprint(ii)
				gi.marked = true
			}
			if vr.Chance(1, 3) {
				gi.lead = append(gi.lead, "// "+gi.name+" holds the copy methods.")
			}
			if vr.Chance(1, 2) {
				gi.lead = append(gi.lead, "//go:generate go run github.com/reedom/convergen@v0.7.0")
			}
			if vr.Chance(1, 4) {
				gi.notations = append(gi.notations, Pick(vr, []string{":typecast", ":stringer", ":case:off", ":getter", ":match name"}))
			}
			nm := vr.Range(1, 4)
			if opts.Rich && vr.Chance(1, 6) {
				nm = vr.Range(8, 12) // many methods: ordering pressure
			}
			if opts.Big == 2 && ii == 0 {
				// a result of 70-100 KB: beyond a page, a pipe buffer, any chunk size
				nm = 130 + vr.Intn(30)
				feat["huge-output"] = true
			}
			if variant == 1 && ii == 0 {
				nm++ // variant 1: a method was added
			}
			if variant == 5 && ii == 0 && nm > 1 {
				nm-- // variant 5: a method was removed
			}
			for mi := 0; mi < nm; mi++ {
				d := defs[vr.Intn(len(defs))]
				m := genMethod{}
				toModel := vr.Bool()
				srcT, dstT := domAlias+"."+d.name, modAlias+"."+d.name
				if !toModel {
					srcT, dstT = dstT, srcT
				}
				m.name = fmt.Sprintf("%s%sTo%s%d", Pick(vr, []string{"", "Copy", "Conv"}), map[bool]string{true: "Domain", false: "Model"}[toModel], map[bool]string{true: "Model", false: "Domain"}[toModel], mcount)
				mcount++
				if vr.Chance(1, 3) {
					m.doc = append(m.doc, "// "+m.name+" copies "+srcT+" into "+dstT+".")
				}
				srcPtr, dstPtr := vr.Chance(3, 4), vr.Chance(3, 4)
				retErr := vr.Chance(1, 3)
				style := "return"
				if vr.Chance(1, 4) {
					style = "arg"
					m.notations = append(m.notations, ":style arg")
					feat["style-arg"] = true
					if vr.Chance(1, 3) {
						m.notations = append(m.notations, ":reverse")
						feat["reverse"] = true
					}
				}
				_ = style
				if vr.Chance(1, 3) {
					m.notations = append(m.notations, ":typecast")
				}
				if vr.Chance(1, 4) {
					m.notations = append(m.notations, ":stringer")
				}
				if vr.Chance(1, 5) || (opts.Big > 0 && vr.Chance(1, 2)) {
					m.notations = append(m.notations, ":case:off")
				}
				if vr.Chance(1, 5) {
					m.notations = append(m.notations, ":getter")
				}
				if getterTwin && mcount%2 == 0 {
					for _, n := range []string{":getter", ":case:off"} {
						has := false
						for _, x := range m.notations {
							has = has || x == n
						}
						if !has {
							m.notations = append(m.notations, n)
						}
					}
				}
				if opts.Rich && vr.Chance(1, 8) {
					// notations that are reserved but not implemented (today: a line on stdout);
					// two candidates with different result types for one interface{} field
					fmt.Fprintf(helpers, "func anyToS%d(v interface{}) string { return \"s\" }\n\nfunc anyToI%d(v interface{}) int { return 1 }\n\n", mcount, mcount)
					m.notations = append(m.notations, fmt.Sprintf(":conv:type anyToS%d", mcount), fmt.Sprintf(":conv:type anyToI%d", mcount))
					feat["reserved-notations"] = true
				}
				// field-level notations
				for _, f := range d.fields {
					if variant == 2 && f.name == d.fields[0].name {
						// variant 2: a notation on the first field was swapped
						m.notations = append(m.notations, ":skip "+f.name)
						continue
					}
					pick := vr.Intn(14)
					if opts.Competing && f.name == "Email" {
						pick = 3
					}
					switch pick {
					case 0:
						m.notations = append(m.notations, ":skip "+f.name)
						feat["skip"] = true
					case 1:
						if f.modelType == "string" && f.domainType == "string" {
							m.notations = append(m.notations, fmt.Sprintf(":literal %s \"lit-%d\"", f.name, mcount))
							feat["literal"] = true
							if vr.Chance(1, 3) {
								// a second literal for the same field, sorting before the first
								m.notations = append(m.notations, fmt.Sprintf(":literal %s \"alt-%d\"", f.name, mcount))
								feat["competing-rules"] = true
							}
						}
					case 2:
						if f.name == "Age" {
							fn := fmt.Sprintf("convAge%d", mcount)
							if toModel {
								fmt.Fprintf(helpers, "func %s(v int32) int { return int(v) }\n\n", fn)
							} else {
								fmt.Fprintf(helpers, "func %s(v int) int32 { return int32(v) }\n\n", fn)
							}
							m.notations = append(m.notations, fmt.Sprintf(":conv %s Age", fn))
							feat["conv"] = true
						} else if f.name == "Status" && !toModel && retErr {
							m.notations = append(m.notations, fmt.Sprintf(":conv %s.NewStatus Status", domAlias))
							feat["conv-error"] = true
						} else if f.name == "ID" {
							fn := fmt.Sprintf("idStr%d", mcount)
							fmt.Fprintf(helpers, "func %s(v int64) int64 {\n\tn, _ := strconv.ParseInt(strconv.FormatInt(v, 10), 10, 64)\n\treturn n\n}\n\n", fn)
							usedStd["strconv"] = true
							m.notations = append(m.notations, fmt.Sprintf(":conv %s ID", fn))
							feat["conv"] = true
						}
					case 3:
						if f.name == "Email" {
							var srcs []string
							for _, g := range d.fields {
								if g.name == "Name" || g.name == "Title" {
									srcs = append(srcs, g.name)
								}
							}
							if len(srcs) == 2 && (vr.Bool() || opts.Competing) {
								// two rules of one notation compete for the same destination, written
								// in either order (the first one wins today)
								if vr.Bool() {
									srcs[0], srcs[1] = srcs[1], srcs[0]
								}
								feat["competing-rules"] = true
							} else if len(srcs) > 1 {
								srcs = srcs[:1]
							}
							for _, g := range srcs {
								m.notations = append(m.notations, fmt.Sprintf(":map %s Email", g))
								feat["map"] = true
							}
						}
					case 4:
						if vr.Chance(1, 2) {
							m.notations = append(m.notations, fmt.Sprintf(":skip /^%s/", f.name[:1]))
							feat["skip-regexp"] = true
						}
					}
				}
				var extra string
				if vr.Chance(1, 5) && !contains(m.notations, ":reverse") {
					extra = ", int, string"
					for _, f := range d.fields {
						if f.name == "Name" || f.name == "Title" {
							if (toModel && f.modelType == "string") || (!toModel && f.domainType == "string") {
								m.notations = append(m.notations, ":map $3 "+f.name)
								feat["additional-args"] = true
							}
							break
						}
					}
				}
				// hooks
				if vr.Chance(1, 4) && !contains(m.notations, ":reverse") && extra == "" {
					hn := fmt.Sprintf("post%d", mcount)
					ds, ss := "*"+dstT, "*"+srcT
					if vr.Bool() {
						ss = srcT
					}
					er, rt := "", ""
					if retErr && vr.Bool() {
						er, rt = " error", "\treturn nil\n"
					}
					fmt.Fprintf(helpers, "func %s(lhs %s, rhs %s)%s {\n%s}\n\n", hn, ds, ss, er, rt)
					kind := Pick(vr, []string{":postprocess", ":preprocess"})
					m.notations = append(m.notations, kind+" "+hn)
					feat["hook"] = true
				} else if hooksPkg && vr.Chance(1, 2) && !contains(m.notations, ":reverse") && extra == "" && srcPtr {
					m.notations = append(m.notations, fmt.Sprintf(":postprocess hooks.Post%s%v", d.name, toModel))
					feat["hook"] = true
				}
				sp, dp := "", ""
				if srcPtr {
					sp = "*"
				}
				if dstPtr {
					dp = "*"
				}
				pname := ""
				if vr.Chance(1, 4) {
					pname = "in "
				}
				res := dp + dstT
				if retErr {
					res = "(" + res + ", error)"
				}
				m.sig = fmt.Sprintf("%s(%s%s%s%s) %s", m.name, pname, sp, srcT, namedExtra(pname, extra), res)
				gi.methods = append(gi.methods, m)
			}
			intfs = append(intfs, gi)
		}
		if opts.Collide && len(intfs) >= 2 && len(intfs[0].methods) > 0 && len(intfs[1].methods) > 0 {
			// two interfaces declare a method of the same name (no receivers to tell them
			// apart): two functions of that name are emitted - accepted today, the
			// result does not compile, which is not this technique's business
			a, b := intfs[0].methods[0], &intfs[1].methods[0]
			recv := false
			for _, n := range append(append([]string(nil), a.notations...), b.notations...) {
				recv = recv || strings.HasPrefix(n, ":recv")
			}
			if !recv {
				b.sig = a.name + strings.TrimPrefix(b.sig, b.name)
				b.name = a.name
				feat["colliding-method-names"] = true
			}
		}
		// a converter that is itself generated in this run
		if (opts.Rich && vr.Chance(1, 3) || vr.Chance(1, 8)) && opts.Reject == "" {
			gi := genIntf{name: "AddrConv", marked: true}
			gi.methods = append(gi.methods, genMethod{name: "AddrToModel", notations: []string{":typecast"}, sig: "AddrToModel(" + domAlias + ".Address) " + modAlias + ".Address"})
			intfs = append(intfs, gi)
			for ii := range intfs {
				for mi := range intfs[ii].methods {
					m := &intfs[ii].methods[mi]
					if strings.Contains(m.name, "DomainToModel") && !contains(m.notations, ":reverse") {
						m.notations = append(m.notations, ":conv AddrToModel Addr")
					}
				}
			}
			feat["converter-generated-in-the-same-run"] = true
		}
		// optional local types + receiver interface
		localBlock := ""
		if vr.Chance(1, 3) {
			feat["local-types+recv"] = true
			lb := &strings.Builder{}
			base := ""
			if twoTypes {
				base = "\tatypes.Base\n"
			}
			fmt.Fprintf(lb, "type Local struct {\n%s\tKey   string\n\tValue int\n}\n\n", base)
			base2 := ""
			if twoTypes {
				base2 = "\tbtypes.Base\n"
			}
			fmt.Fprintf(lb, "type Wire struct {\n%s\tKey   string\n\tValue int64\n}\n\n", base2)
			localBlock = lb.String()
			gi := genIntf{name: "LocalConv", marked: true}
			gi.methods = append(gi.methods, genMethod{name: "ToWire", notations: []string{":recv l", ":typecast"}, sig: "ToWire(*Local) *Wire"})
			if vr.Bool() {
				gi.methods = append(gi.methods, genMethod{name: "FromWire", notations: []string{":typecast", ":style arg"}, sig: "FromWire(*Wire) *Local"})
			}
			intfs = append(intfs, gi)
		} else if twoTypes {
			// keep the imports used
			localBlock = "type Pair struct {\n\tA atypes.Base\n\tB btypes.Base\n}\n\n"
		}

		// --- rejected families: one targeted defect
		switch opts.Reject {
		case "unknown-converter":
			intfs[0].methods[0].notations = append(intfs[0].methods[0].notations, ":conv noSuchFunc ID")
		case "reverse-without-arg":
			m := &intfs[0].methods[0]
			m.notations = removeStr(removeStr(m.notations, ":style arg"), ":reverse")
			m.notations = append(m.notations, ":reverse")
		case "non-struct-operand":
			intfs[0].methods = append(intfs[0].methods, genMethod{name: "Bad", sig: "Bad(int) string"})
		case "unresolved-type":
			intfs[0].methods = append(intfs[0].methods, genMethod{name: "Bad", sig: "Bad(*" + domAlias + ".Nope) *" + modAlias + ".Nope"})
		case "bad-literal":
			intfs[0].methods[0].notations = append([]string{":literal " + defs[0].fields[0].name + " )("}, intfs[0].methods[0].notations...)
			// make sure it is this method's struct that has that field
			intfs[0].methods[0].sig = fmt.Sprintf("%s(*%s.%s) *%s.%s", intfs[0].methods[0].name, domAlias, defs[0].name, modAlias, defs[0].name)
			intfs[0].methods[0].notations = []string{":literal " + defs[0].fields[0].name + " )("}
		case "bad-style":
			intfs[0].methods[0].notations = append(intfs[0].methods[0].notations, ":style sideways")
		case "qualifier-by-package-name":
			// a notation qualifies its function with the name the imported package
			// DECLARES (codec), which neither the last element of the import path
			// (.../codec/v2) nor a local alias spells; a sibling file imports another
			// package of that name, under an alias, whose function has another shape
			imp("", "example.com/w/codec/v2")
			localBlock += "type Coded struct {\n\tID int64\n}\n\ntype CodedOut struct {\n\tID string\n}\n\nvar _ = codec.Encode\n\n"
			gi := genIntf{name: "CodecConv", marked: true}
			gi.methods = append(gi.methods, genMethod{name: "CodedToOut", notations: []string{":conv codec.Encode ID"}, sig: "CodedToOut(*Coded) (*CodedOut, error)"})
			intfs = append(intfs, gi)
		}
		if thirdParty {
			imp("", "example.com/dep/kinds")
			gi := genIntf{name: "KindConv", marked: true}
			gi.methods = append(gi.methods, genMethod{name: "KindToModel", sig: "KindToModel(*kinds.Kind) *" + modAlias + "." + defs[0].name})
			intfs = append(intfs, gi)
		}
		switch opts.Reject {
		case "gomod-lagging":
			// the user's go.mod lags behind the imports: a replace without the require
			imp("", "example.com/dep/kinds")
			intfs[0].methods = append(intfs[0].methods, genMethod{name: "KindToModel", sig: "KindToModel(*kinds.Kind) *" + modAlias + "." + defs[0].name})
		}

		var b strings.Builder
		switch vr.Intn(3) {
		case 0:
			b.WriteString("//go:build convergen\n\n")
		case 1:
			b.WriteString("//go:build convergen\n// +build convergen\n\n")
		default:
			b.WriteString("//go:build convergen\n\n// Package " + pkgName + " holds generated converters.\n")
		}
		if variant == 4 {
			fmt.Fprintf(&b, "package %sv2\n\n", pkgName) // variant 4: the package was renamed
		} else {
			fmt.Fprintf(&b, "package %s\n\n", pkgName)
		}
		std := []string{}
		for k := range usedStd {
			std = append(std, k)
		}
		sort.Strings(std)
		b.WriteString("import (\n")
		for _, s := range std {
			fmt.Fprintf(&b, "\t%q\n", s)
		}
		if len(std) > 0 {
			b.WriteString("\n")
		}
		// import order as the user wrote it: seeded, not sorted
		Shuffle(vr, imports)
		if opts.ForceHooks || twoBlankHooks {
			d := defs[0]
			gi := genIntf{name: "HookedConv", marked: true}
			gi.methods = append(gi.methods, genMethod{name: "HookedToModel", notations: []string{":postprocess hooks.Post" + d.name + "true"}, sig: "HookedToModel(*" + domAlias + "." + d.name + ") *" + modAlias + "." + d.name})
			intfs = append(intfs, gi)
		}
		if blankSameBase {
			blank := "\t_ \"example.com/w/audit/model\""
			if blankFirst {
				imports = append([]string{blank}, imports...)
			} else {
				imports = append(imports, blank)
			}
			gi := genIntf{name: "LabelConv", marked: true}
			gi.methods = append(gi.methods, genMethod{name: "TagToModel", notations: []string{":conv model.ToLabel ID Label"}, sig: "TagToModel(*" + domAlias + ".Tagged) (*model.Tagged, error)"})
			intfs = append(intfs, gi)
		}
		for _, s := range imports {
			b.WriteString(s + "\n")
		}
		b.WriteString(")\n\n")
		if vr.Chance(1, 2) {
			b.WriteString("// Version of the mapping layer.\nconst Version = \"1.0\"\n\n")
		}
		b.WriteString(localBlock)
		if opts.Reject == "no-interface" {
			b.WriteString("// no converter interface in this file\ntype NotAConverter interface {\n\tDo()\n}\n\n")
		} else {
			for _, gi := range intfs {
				for _, l := range gi.lead {
					b.WriteString(l + "\n")
				}
				if gi.marked {
					b.WriteString("// :convergen\n")
				}
				for _, n := range gi.notations {
					b.WriteString("// " + n + "\n")
				}
				fmt.Fprintf(&b, "type %s interface {\n", gi.name)
				if embedSiblings && gi.name == intfs[0].name {
					b.WriteString("\tEmbA\n\tEmbB\n")
				}
				for mi, m := range gi.methods {
					if layoutNoise && mi > 0 {
						// unusual but legal layout between methods
						switch vr.Intn(4) {
						case 0:
							b.WriteString("\n")
						case 1:
							b.WriteString("\n\n\t// ---- next group ----\n\n")
						case 2:
							b.WriteString("\t/* a block comment */\n")
						case 3:
							// a notation detached from any doc comment by a blank line
							b.WriteString("\t// :typecast\n\n")
						}
					}
					for _, l := range m.doc {
						b.WriteString("\t" + l + "\n")
					}
					for _, n := range m.notations {
						b.WriteString("\t// " + n + "\n")
					}
					if layoutNoise && vr.Chance(1, 3) {
						b.WriteString("\t" + m.sig + " // trailing comment\n")
					} else {
						b.WriteString("\t" + m.sig + "\n")
					}
				}
				if layoutNoise && vr.Chance(1, 3) {
					b.WriteString("\n\t// :stringer\n") // a lone notation before the closing brace
				}
				b.WriteString("}\n\n")
				if vr.Chance(1, 4) {
					b.WriteString("var _ = Version0\n\nconst Version0 = 0\n\n")
				}
			}
		}
		b.WriteString(helpers.String())
		if vr.Chance(1, 3) {
			b.WriteString("// trailing helper\nfunc unusedHelper() string {\n\treturn \"x\"\n}\n")
		}
		if opts.Reject == "syntax-error" {
			b.WriteString("\nfunc broken( {\n")
		}
		if variant == 3 {
			b.WriteString("\n// edited: a comment was appended\nvar Edited = true\n")
		}
		return b.String()
	}

	// a setup file saved with CRLF line terminators is Go like any other
	crlf := func(t string) string {
		if opts.CRLF {
			return strings.ReplaceAll(t, "\n", "\r\n")
		}
		return t
	}
	if opts.CRLF {
		feat["setup-file-crlf"] = true
	}
	w.Files[w.Setup] = crlf(build(0))
	for v := 1; v <= variantCount; v++ {
		w.Variants = append(w.Variants, crlf(build(v)))
	}
	if hooksPkg {
		var hb strings.Builder
		hb.WriteString("package hooks\n\nimport (\n\t\"example.com/w/domain\"\n\t\"example.com/w/model\"\n)\n\n")
		for _, d := range defs {
			fmt.Fprintf(&hb, "func Post%strue(lhs *model.%s, rhs *domain.%s) {}\n\n", d.name, d.name, d.name)
			fmt.Fprintf(&hb, "func Post%sfalse(lhs *domain.%s, rhs *model.%s) {}\n\n", d.name, d.name, d.name)
		}
		w.Files[dir+"/hooks/hooks.go"] = hb.String()
		if legacyHooks {
			// the same-named package elsewhere exports the same functions with another
			// shape (source by value), so that it shows in the output which one was used
			w.Files["mod/legacy/hooks/hooks.go"] = strings.ReplaceAll(strings.ReplaceAll(hb.String(), ", rhs *domain.", ", rhs domain."), ", rhs *model.", ", rhs model.")
		}
	}
	if layoutNoise {
		feat["layout-noise"] = true
	}
	if opts.Big > 0 {
		feat["wide-structs"] = true
	}
	if embedSiblings && opts.Reject != "no-interface" {
		feat["embedded-interfaces-from-sibling-files"] = true
		for _, n := range []string{"A", "B"} {
			w.Files[dir+"/embed_"+strings.ToLower(n)+".go"] = "//go:build convergen\n\npackage " + pkgName + "\n\nimport (\n\t\"example.com/w/domain\"\n\t\"example.com/w/model\"\n)\n\n" +
				"// Emb" + n + " is embedded by the converter interface of the setup file.\ntype Emb" + n + " interface {\n\tProbe" + n + "ToModel(*domain.Probe) *model.Probe\n\tProbe" + n + "2(*domain.Probe) *model.Probe\n}\n"
		}
	}
	if r.Chance(1, 3) && !opts.NoSiblings {
		feat["sibling-file"] = true
		w.Files[dir+"/doc.go"] = "// Package " + pkgName + " documentation.\npackage " + pkgName + "\n\n// SiblingConst lives in an ordinary file of the package.\nconst SiblingConst = 42\n"
	}
	if r.Chance(1, 4) && !opts.NoSiblings {
		feat["sibling-marked-interface"] = true
		w.Files[dir+"/other_setup.go"] = "//go:build convergen\n\npackage " + pkgName + "\n\n// :convergen\ntype Elsewhere interface {\n\tDo(*" + "SiblingT) *SiblingT\n}\n\ntype SiblingT struct{ X int }\n"
	}
	w.Files["outside/README"] = "a directory outside the module\n"
	w.Files["elsewhere/notes.txt"] = "an unrelated working directory\n"
	w.Files["mod/"+strings.TrimPrefix(dir, "mod/")+"/sub/keep.txt"] = "existing sub-directory inside the package\n"

	if opts.Reject == "qualifier-by-package-name" {
		w.Files["mod/codec/v2/codec.go"] = "// Package codec, second major version: encoding can fail.\npackage codec\n\nimport \"strconv\"\n\nfunc Encode(id int64) (string, error) {\n\treturn strconv.FormatInt(id, 36), nil\n}\n"
		w.Files["mod/legacy/codec/codec.go"] = "package codec\n\nimport \"strconv\"\n\nfunc Encode(id int64) string {\n\treturn strconv.FormatInt(id, 10)\n}\n"
		w.Files[dir+"/zz_legacy_codec.go"] = "package " + pkgName + "\n\nimport oldcodec \"example.com/w/legacy/codec\"\n\n// EncodeLegacy keeps the old wire format available.\nvar EncodeLegacy = oldcodec.Encode\n"
	}
	if thirdParty {
		// an import from ANOTHER module, properly required (and replaced by a local
		// directory, so that nothing has to be fetched): the generated import block
		// then holds an own-module and a third-party path side by side
		w.Files["mod/go.mod"] = "module example.com/w\n\ngo 1.19\n\nrequire example.com/dep v0.0.0\n\nreplace example.com/dep => ../outside/dep\n"
		w.Files["outside/dep/go.mod"] = "module example.com/dep\n\ngo 1.19\n"
		w.Files["outside/dep/kinds/kinds.go"] = "package kinds\n\ntype Kind struct {\n\tID int64\n}\n"
		// (the go command resolves the relative replace against the LOGICAL module
		// root: entered through elsewhere/modlink that is elsewhere/outside/dep)
		w.Files["elsewhere/outside/dep/go.mod"] = w.Files["outside/dep/go.mod"]
		w.Files["elsewhere/outside/dep/kinds/kinds.go"] = w.Files["outside/dep/kinds/kinds.go"]
		feat["third-party-import"] = true
	}
	// surroundings of the package that today's tool does not look at: a project file
	// or directory at the module root, a header file, a user-wide settings file
	switch surroundings {
	case 0:
		w.Files["mod/.convergen"] = "# project-wide defaults\n:typecast\n:stringer\n"
		feat["surroundings:notation-file"] = true
	case 1:
		w.Files["mod/.convergen"] = "# project settings\nheader = HEADER.txt\n"
		w.Files["mod/HEADER.txt"] = "// Copyright (c) Example Corp. All rights reserved.\n"
		w.Files["home/.config/convergen/settings"] = "header = HEADER.txt\n"
		w.Files["home/.config/convergen/HEADER.txt"] = w.Files["mod/HEADER.txt"]
		feat["surroundings:settings-file"] = true
	case 2:
		w.Files["mod/.convergen/README"] = "state directory of the generator\n"
		feat["surroundings:state-directory"] = true
	}
	if opts.Reject == "gomod-lagging" {
		w.Files["mod/go.mod"] = "module example.com/w\n\ngo 1.19\n\nreplace example.com/dep => ../outside/dep\n"
		w.Files["outside/dep/go.mod"] = "module example.com/dep\n\ngo 1.19\n"
		w.Files["outside/dep/kinds/kinds.go"] = "package kinds\n\ntype Kind struct {\n\tID int64\n}\n"
	}
	if opts.Reject != "" {
		w.Expect = "reject:" + opts.Reject
	} else {
		w.Expect = "accept"
	}
	for k := range feat {
		w.Features = append(w.Features, k)
	}
	sort.Strings(w.Features)
	w.Name = fmt.Sprintf("syn-%s", w.Digest())
	return w
}

func namedExtra(pname, extra string) string {
	if extra == "" {
		return ""
	}
	if pname == "" {
		return extra
	}
	return ", n int, s string"
}

func contains(xs []string, s string) bool {
	for _, x := range xs {
		if x == s {
			return true
		}
	}
	return false
}

func removeStr(xs []string, s string) []string {
	var out []string
	for _, x := range xs {
		if x != s {
			out = append(out, x)
		}
	}
	return out
}
