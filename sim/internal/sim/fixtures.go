package sim

import (
	"io/fs"
	"os"
	"path/filepath"
	"sort"
	"strings"
)

// FixtureWorlds builds one world per use case of the tests/fixtures tree of
// the *current working tree* at repo. Golden outputs (*.gen.go) are left out:
// what sits at the output path is the history's business.
func FixtureWorlds(repo string) ([]*WorldSpec, error) {
	base := map[string]string{}
	for _, f := range []string{"go.mod", "go.sum"} {
		b, err := os.ReadFile(filepath.Join(repo, f))
		if err != nil {
			return nil, err
		}
		base["mod/"+f] = string(b)
	}
	fx := filepath.Join(repo, "tests", "fixtures")
	err := filepath.WalkDir(fx, func(p string, d fs.DirEntry, err error) error {
		if err != nil {
			return err
		}
		if d.IsDir() {
			return nil
		}
		rel, _ := filepath.Rel(repo, p)
		rel = filepath.ToSlash(rel)
		if strings.HasSuffix(rel, ".gen.go") {
			return nil
		}
		b, err := os.ReadFile(p)
		if err != nil {
			return err
		}
		base["mod/"+rel] = string(b)
		return nil
	})
	if err != nil {
		return nil, err
	}
	ents, err := os.ReadDir(filepath.Join(fx, "usecase"))
	if err != nil {
		return nil, err
	}
	var out []*WorldSpec
	for _, e := range ents {
		if !e.IsDir() {
			continue
		}
		setup := "mod/tests/fixtures/usecase/" + e.Name() + "/setup.go"
		if _, ok := base[setup]; !ok {
			continue
		}
		w := &WorldSpec{Name: "fixture-" + e.Name(), Files: map[string]string{}, Setup: setup, Expect: "fixture"}
		for k, v := range base {
			w.Files[k] = v
		}
		w.Files["outside/README"] = "a directory outside the module\n"
		w.Files["elsewhere/notes.txt"] = "an unrelated working directory\n"
		out = append(out, w)
	}
	sort.Slice(out, func(i, j int) bool { return out[i].Name < out[j].Name })
	return out, nil
}
