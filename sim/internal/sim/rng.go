package sim

import (
	"crypto/sha256"
	"encoding/binary"
	"fmt"
)

// Rng is a small deterministic PRNG (splitmix64 seeded, xoshiro-free, enough
// for choice sequences). Every random decision of the simulator is drawn from
// an Rng derived from (VERIF_SEED, property, case index[, purpose]); nothing
// else (no clock, no map order, no completion order) influences a decision.
type Rng struct{ s uint64 }

func mix(z uint64) uint64 {
	z += 0x9e3779b97f4a7c15
	z = (z ^ (z >> 30)) * 0xbf58476d1ce4e5b9
	z = (z ^ (z >> 27)) * 0x94d049bb133111eb
	return z ^ (z >> 31)
}

// Derive builds an independent stream from a seed and any number of labels.
func Derive(seed int64, labels ...any) *Rng {
	h := sha256.New()
	var b [8]byte
	binary.LittleEndian.PutUint64(b[:], uint64(seed))
	h.Write(b[:])
	for _, l := range labels {
		fmt.Fprintf(h, "|%v", l)
	}
	sum := h.Sum(nil)
	return &Rng{s: binary.LittleEndian.Uint64(sum[:8])}
}

func (r *Rng) Uint64() uint64 {
	r.s += 0x9e3779b97f4a7c15
	z := r.s
	z = (z ^ (z >> 30)) * 0xbf58476d1ce4e5b9
	z = (z ^ (z >> 27)) * 0x94d049bb133111eb
	return z ^ (z >> 31)
}

// Intn returns a value in [0,n). n<=0 returns 0.
func (r *Rng) Intn(n int) int {
	if n <= 0 {
		return 0
	}
	return int(r.Uint64() % uint64(n))
}

// Range returns a value in [lo,hi] inclusive.
func (r *Rng) Range(lo, hi int) int {
	if hi <= lo {
		return lo
	}
	return lo + r.Intn(hi-lo+1)
}

func (r *Rng) Bool() bool { return r.Uint64()&1 == 1 }

// Chance is true with probability num/den.
func (r *Rng) Chance(num, den int) bool { return r.Intn(den) < num }

func (r *Rng) Bytes(n int) []byte {
	b := make([]byte, n)
	for i := range b {
		b[i] = byte(r.Uint64())
	}
	return b
}

// Pick returns one element.
func Pick[T any](r *Rng, xs []T) T { return xs[r.Intn(len(xs))] }

// Shuffle permutes in place.
func Shuffle[T any](r *Rng, xs []T) {
	for i := len(xs) - 1; i > 0; i-- {
		j := r.Intn(i + 1)
		xs[i], xs[j] = xs[j], xs[i]
	}
}

// Fork derives a child stream without disturbing the labels' independence.
func (r *Rng) Fork(label string) *Rng {
	return Derive(int64(r.Uint64()), label)
}
