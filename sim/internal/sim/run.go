package sim

import (
	"bufio"
	"bytes"
	"context"
	"encoding/json"
	"errors"
	"fmt"
	"os"
	"os/exec"
	"path/filepath"
	"sort"
	"strings"
	"syscall"
	"time"
)

// Fault and Plan mirror the structures of the run-time seam (vsimrt).
type Fault struct {
	Op    string `json:"op"`
	Path  string `json:"path"`
	Nth   int    `json:"nth"`
	Kind  string `json:"kind"`
	Errno string `json:"errno,omitempty"`
	K     int    `json:"k,omitempty"`
}

type Plan struct {
	Trace        string         `json:"trace"`
	Markers      []string       `json:"markers,omitempty"`
	ClockSet     bool           `json:"clock_set,omitempty"`
	ClockStart   int64          `json:"clock_start,omitempty"`
	ClockStepNs  int64          `json:"clock_step_ns,omitempty"`
	Pid          int            `json:"pid,omitempty"`
	Hostname     string         `json:"hostname,omitempty"`
	StatDelaysUs map[string]int `json:"stat_delays_us,omitempty"`
	TimersEarly  bool           `json:"timers_early,omitempty"`
	Faults       []Fault        `json:"faults,omitempty"`
}

// Ctx is everything about one process start that is not the world.
// Paths in Args/Cwd/Env may contain the token {W}, replaced by the world root,
// so that a recorded Ctx is valid for any materialisation of the world.
type Ctx struct {
	Binary     string   `json:"binary"` // "sim" or "plain"
	Args       []string `json:"args"`
	Cwd        string   `json:"cwd"`
	Env        []string `json:"env,omitempty"` // additions: KEY=VALUE
	GoMaxProcs int      `json:"gomaxprocs,omitempty"`
	Plan       *Plan    `json:"plan,omitempty"` // only with Binary=="sim"; paths may contain {W}
	// Stdout: "" = a pipe that is read to the end; "full" = /dev/full (every write
	// fails with ENOSPC); "readonly" = a descriptor opened for reading (EBADF)
	Stdout string `json:"stdout,omitempty"`
	// HomeRel puts HOME at {W}/<HomeRel> (created, with go telemetry off) instead of the shared scratch HOME.
	HomeRel string `json:"home_rel,omitempty"`
}

type TraceRec struct {
	Op    string `json:"op"`
	Path  string `json:"path,omitempty"`
	N     int    `json:"n,omitempty"`
	Fault string `json:"fault,omitempty"`
	Res   string `json:"res,omitempty"`
	Size  int    `json:"size,omitempty"`
	Hash  string `json:"hash,omitempty"`
	Arg   string `json:"arg,omitempty"`
}

// Observation is what one simulated run showed.
type Observation struct {
	Status string     `json:"status"` // "exit:N", "signal:NAME", "timeout", "starterr:..."
	Stdout []byte     `json:"-"`
	Stderr []byte     `json:"-"`
	Trace  []TraceRec `json:"-"`
	WallMs int64      `json:"-"`
	Fired  []string   `json:"fired,omitempty"` // fault kinds that actually fired, from the trace
}

func (o *Observation) ExitCode() int {
	var n int
	if _, err := fmt.Sscanf(o.Status, "exit:%d", &n); err == nil {
		return n
	}
	return -1
}

// Env holds the shared, world-independent parts of the run environment.
type Env struct {
	Scratch   string // scratch root of this check
	PlainBin  string
	SimBin    string
	Home      string // shared HOME outside every world (telemetry off)
	GoCache   string
	RunTimout time.Duration
	Seam      *SeamInfo
}

func subst(s, root string) string { return strings.ReplaceAll(s, "{W}", root) }

// Unsubst turns concrete paths of an observation back into tokens so that logs
// contain no scratch names.
func Unsubst(s, root string) string { return strings.ReplaceAll(s, root, "{W}") }

// Run starts one fresh convergen process in the world materialised at root.
func (e *Env) Run(root string, c Ctx) *Observation {
	obs := &Observation{}
	bin := e.PlainBin
	if c.Binary == "sim" {
		bin = e.SimBin
	}
	args := make([]string, len(c.Args))
	for i, a := range c.Args {
		args[i] = subst(a, root)
	}
	timeout := e.RunTimout
	if timeout == 0 {
		timeout = 90 * time.Second
	}
	ctx, cancel := context.WithTimeout(context.Background(), timeout)
	defer cancel()
	cmd := exec.CommandContext(ctx, bin, args...)
	cmd.Dir = subst(c.Cwd, root)
	home := e.Home
	if c.HomeRel != "" {
		// HOME (and with it os.UserCacheDir / os.UserConfigDir) inside the world, so
		// that the frame check sees anything a run leaves there
		home = filepath.Join(root, c.HomeRel)
		tdir := filepath.Join(home, ".config", "go", "telemetry")
		if _, err := os.Stat(filepath.Join(tdir, "mode")); err != nil {
			os.MkdirAll(tdir, 0o755)
			os.WriteFile(filepath.Join(tdir, "mode"), []byte("off 2024-01-01\n"), 0o644)
		}
	}
	env := []string{
		"PATH=" + os.Getenv("PATH"),
		"HOME=" + home,
		"TMPDIR=" + filepath.Join(root, "tmp"),
		"GOCACHE=" + e.GoCache,
		"GOMODCACHE=" + goModCache(),
		"GOPROXY=off", "GOSUMDB=off", "GOTOOLCHAIN=local", "GOFLAGS=",
		"GOTELEMETRY=off",
		// a shell exports the logical working directory; without it a symlinked
		// cwd would be invisible to the process (os.Getwd falls back to getcwd)
		"PWD=" + subst(c.Cwd, root),
	}
	// GOMAXPROCS is inherited by the `go list` child too. Unspecified means 2:
	// 16 workers x 16 threads x 2 processes only thrash the machine.
	gmp := c.GoMaxProcs
	if gmp <= 0 {
		gmp = 2
	}
	env = append(env, fmt.Sprintf("GOMAXPROCS=%d", gmp))
	for _, kv := range c.Env {
		env = append(env, subst(kv, root))
	}
	var planFile, traceFile string
	if c.Binary == "sim" {
		p := Plan{}
		if c.Plan != nil {
			p = *c.Plan
			p.Faults = append([]Fault(nil), c.Plan.Faults...)
			for i := range p.Faults {
				p.Faults[i].Path = subst(p.Faults[i].Path, root)
			}
		}
		// plan and trace live next to the world, not inside it
		f, err := os.CreateTemp(filepath.Dir(root), "plan-*.json")
		if err != nil {
			obs.Status = "starterr:" + err.Error()
			return obs
		}
		planFile = f.Name()
		traceFile = planFile + ".trace"
		p.Trace = traceFile
		b, _ := json.Marshal(p)
		f.Write(b)
		f.Close()
		env = append(env, "VERIFSIM_PLAN="+planFile)
		defer os.Remove(planFile)
		defer os.Remove(traceFile)
	}
	cmd.Env = env
	var so, se bytes.Buffer
	cmd.Stdout = &so
	cmd.Stderr = &se
	switch c.Stdout {
	case "full":
		if f, err := os.OpenFile("/dev/full", os.O_WRONLY, 0); err == nil {
			defer f.Close()
			cmd.Stdout = f
		}
	case "readonly":
		if f, err := os.Open("/dev/null"); err == nil {
			defer f.Close()
			cmd.Stdout = f
		}
	}
	cmd.WaitDelay = 5 * time.Second
	cmd.SysProcAttr = &syscall.SysProcAttr{Setpgid: true}
	cmd.Cancel = func() error {
		// kill the whole group (convergen + its go list children)
		return syscall.Kill(-cmd.Process.Pid, syscall.SIGKILL)
	}
	t0 := time.Now()
	err := cmd.Run()
	obs.WallMs = time.Since(t0).Milliseconds()
	obs.Stdout = so.Bytes()
	obs.Stderr = se.Bytes()
	switch {
	case ctx.Err() == context.DeadlineExceeded:
		obs.Status = "timeout"
	case err == nil:
		obs.Status = "exit:0"
	default:
		var ee *exec.ExitError
		if errors.As(err, &ee) {
			ws := ee.Sys().(syscall.WaitStatus)
			if ws.Signaled() {
				obs.Status = "signal:" + ws.Signal().String()
			} else {
				obs.Status = fmt.Sprintf("exit:%d", ws.ExitStatus())
			}
		} else {
			obs.Status = "starterr:" + err.Error()
		}
	}
	// make sure no child of a crashed run lingers and keeps writing
	if cmd.Process != nil {
		syscall.Kill(-cmd.Process.Pid, syscall.SIGKILL)
	}
	if traceFile != "" {
		if f, err := os.Open(traceFile); err == nil {
			sc := bufio.NewScanner(f)
			sc.Buffer(make([]byte, 1<<20), 1<<24)
			for sc.Scan() {
				var r TraceRec
				if json.Unmarshal(sc.Bytes(), &r) == nil {
					r.Path = Unsubst(r.Path, root)
					r.Arg = Unsubst(r.Arg, root)
					obs.Trace = append(obs.Trace, r)
				}
			}
			f.Close()
		}
		seen := map[string]bool{}
		for _, r := range obs.Trace {
			if r.Fault != "" {
				k := r.Op + ":" + r.Fault
				if !seen[k] {
					seen[k] = true
					obs.Fired = append(obs.Fired, k)
				}
			}
		}
		sort.Strings(obs.Fired)
	}
	return obs
}

var modCache string

func goModCache() string {
	if modCache != "" {
		return modCache
	}
	if v := os.Getenv("GOMODCACHE"); v != "" {
		modCache = v
		return v
	}
	out, err := exec.Command("go", "env", "GOMODCACHE").Output()
	if err == nil {
		modCache = strings.TrimSpace(string(out))
	}
	if modCache == "" {
		modCache = filepath.Join(os.Getenv("HOME"), "go", "pkg", "mod")
	}
	return modCache
}
