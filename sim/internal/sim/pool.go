package sim

import (
	"runtime"
	"sync"
	"sync/atomic"
)

// Workers is the number of OS-level convergen processes kept in flight.
func Workers() int {
	n := runtime.NumCPU()
	if n > 16 {
		n = 16
	}
	if n < 1 {
		n = 1
	}
	return n
}

// ParMap runs f(i) for i in [0,n) on `workers` goroutines and returns the
// results in index order. What f(i) does must depend on i only (every case
// derives its own Rng from the index), so the outcome is independent of the
// worker count and of completion order. If stop is non-nil and becomes true,
// not-yet-started indices are skipped (their slot stays the zero value and
// done[i] is false).
func ParMap[T any](n, workers int, stop *atomic.Bool, f func(i int) T) (out []T, done []bool) {
	out = make([]T, n)
	done = make([]bool, n)
	var next atomic.Int64
	var wg sync.WaitGroup
	if workers < 1 {
		workers = 1
	}
	for w := 0; w < workers; w++ {
		wg.Add(1)
		go func() {
			defer wg.Done()
			for {
				i := int(next.Add(1)) - 1
				if i >= n {
					return
				}
				if stop != nil && stop.Load() {
					return
				}
				out[i] = f(i)
				done[i] = true
			}
		}()
	}
	wg.Wait()
	return
}
