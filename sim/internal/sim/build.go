package sim

import (
	"fmt"
	"os"
	"os/signal"
	"path/filepath"
	"syscall"
	"time"
)

// Prepare copies repo's working tree to a fresh scratch directory, builds the
// unmodified ("plain") binary, inserts the seam and builds the simulated
// ("sim") binary. The caller must call Cleanup.
func Prepare(repo string) (*Env, error) {
	base := os.Getenv("VERIF_SCRATCH")
	if base == "" {
		base = "/var/tmp"
	}
	scratch, err := os.MkdirTemp(base, "verifsim.")
	if err != nil {
		return nil, err
	}
	e := &Env{Scratch: scratch, RunTimout: 120 * time.Second}
	// remove scratch on SIGINT/SIGTERM too
	ch := make(chan os.Signal, 1)
	signal.Notify(ch, syscall.SIGINT, syscall.SIGTERM)
	go func() {
		<-ch
		os.RemoveAll(scratch)
		os.Exit(2)
	}()
	src := filepath.Join(scratch, "repo")
	if err := CopyTree(repo, src); err != nil {
		return e, fmt.Errorf("copying %s: %w", repo, err)
	}
	bin := filepath.Join(scratch, "bin")
	os.MkdirAll(bin, 0o755)
	e.PlainBin = filepath.Join(bin, "convergen-plain")
	e.SimBin = filepath.Join(bin, "convergen-sim")
	if err := GoBuild(src, ".", e.PlainBin); err != nil {
		return e, err
	}
	seam, err := InsertSeam(src)
	if err != nil {
		return e, fmt.Errorf("seam insertion: %w", err)
	}
	e.Seam = seam
	if err := GoBuild(src, ".", e.SimBin); err != nil {
		return e, fmt.Errorf("building the seam-instrumented tree: %w", err)
	}
	e.Home = filepath.Join(scratch, "home")
	tdir := filepath.Join(e.Home, ".config", "go", "telemetry")
	os.MkdirAll(tdir, 0o755)
	os.WriteFile(filepath.Join(tdir, "mode"), []byte("off 2024-01-01\n"), 0o644)
	e.GoCache = os.Getenv("GOCACHE")
	if e.GoCache == "" {
		if d, err := os.UserCacheDir(); err == nil {
			e.GoCache = filepath.Join(d, "go-build")
		} else {
			e.GoCache = filepath.Join(scratch, "gocache")
		}
	}
	return e, nil
}

func (e *Env) RepoCopy() string { return filepath.Join(e.Scratch, "repo") }

func (e *Env) Cleanup() {
	if e != nil && e.Scratch != "" {
		os.RemoveAll(e.Scratch)
	}
}

// NewWorldDir materialises w under the scratch directory and returns its root.
func (e *Env) NewWorldDir(w *WorldSpec, tag string) (string, error) {
	wd, err := os.MkdirTemp(e.Scratch, "w-"+tag+"-")
	if err != nil {
		return "", err
	}
	root := filepath.Join(wd, "world")
	if err := w.Materialize(root); err != nil {
		return "", err
	}
	return root, nil
}

// DropWorldDir removes a world (and its plan/trace siblings).
func (e *Env) DropWorldDir(root string) { os.RemoveAll(filepath.Dir(root)) }
