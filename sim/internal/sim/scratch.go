package sim

import (
	"fmt"
	"os"
	"os/signal"
	"path/filepath"
	"syscall"
)

// PrepareCopy makes a scratch directory holding only a copy of repo's working
// tree (no binaries). Used by checks that compile against the tree.
func PrepareCopy(repo string) (*Env, error) {
	base := os.Getenv("VERIF_SCRATCH")
	if base == "" {
		base = "/var/tmp"
	}
	scratch, err := os.MkdirTemp(base, "verifsim.")
	if err != nil {
		return nil, err
	}
	e := &Env{Scratch: scratch}
	ch := make(chan os.Signal, 1)
	signal.Notify(ch, syscall.SIGINT, syscall.SIGTERM)
	go func() {
		<-ch
		os.RemoveAll(scratch)
		os.Exit(2)
	}()
	if err := CopyTree(repo, filepath.Join(scratch, "repo")); err != nil {
		return e, fmt.Errorf("copying %s: %w", repo, err)
	}
	return e, nil
}
