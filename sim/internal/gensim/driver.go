package gensim

import (
	"fmt"
	"strings"
)

func extraValue(t string, i int) string {
	switch t {
	case "ms.Extra":
		return fmt.Sprintf("ms.Extra{V: %d}", 61+i)
	case "*ms.Extra":
		return fmt.Sprintf("&ms.Extra{V: %d}", 61+i)
	case "*int":
		return fmt.Sprintf("intp(%d)", 81+i)
	case "int":
		return fmt.Sprintf("%d", 71+i)
	case "string":
		return fmt.Sprintf("%q", fmt.Sprintf("extra-%d", i))
	}
	return "nil"
}

// driverSource renders cmd/driver/main.go: it only records; every oracle
// lives in verifsim.
func driverSource(meta *Meta) string {
	var b strings.Builder
	b.WriteString(`package main

import (
	"encoding/json"
	"fmt"
	"os"

	"example.com/g/conv"
	"example.com/g/md"
	"example.com/g/ms"
	"example.com/g/rt"
)

var _ = fmt.Sprint
var _ = ms.S{}
var _ = md.D{}
var _ = conv.LS{}

func intp(v int) *int { return &v }

func mkS(set int) ms.S {
	s := ms.S{A: 11, B: 12, C: "c-src", D: 14, N: ms.Nest{X: 21, Y: 22, Z: "nz-src", In: ms.Inner{W: 23, V: 24}}, Base: ms.Base{E1: 41, E2: "e2-src"}, Q: 51, R: "r-src", L: []int{71, 72, 73}, M: map[string]int{"k1": 81, "k2": 82}, L2: []int{91, 92, 93}, PP: &ms.Nest{X: 61, Y: 62, Z: "ppz-src", In: ms.Inner{W: 63, V: 64}}}
	if set == 0 {
		s.P = &ms.Nest{X: 31, Y: 32, Z: "pz-src", In: ms.Inner{W: 33, V: 34}}
	}
	return s
}

func mkLS(set int) conv.LS {
	s := conv.LS{A: 11, B: 12, C: "c-src", D: 14, N: ms.Nest{X: 21, Y: 22, Z: "nz-src", In: ms.Inner{W: 23, V: 24}}, Base: ms.Base{E1: 41, E2: "e2-src"}, Q: 51, R: "r-src", L: []int{71, 72, 73}, M: map[string]int{"k1": 81, "k2": 82}, L2: []int{91, 92, 93}, PP: &ms.Nest{X: 61, Y: 62, Z: "ppz-src", In: ms.Inner{W: 63, V: 64}}}
	if set == 0 {
		s.P = &ms.Nest{X: 31, Y: 32, Z: "pz-src", In: ms.Inner{W: 33, V: 34}}
	}
	return s
}

func mkD() md.D {
	return md.D{A: "pre-A", B: 901, C: "pre-C", D: "pre-D", N: md.Nest{X: "pre-NX", Y: 902, Z: "pre-NZ", In: md.Inner{W: "pre-NW", V: 905}}, P: &md.Nest{X: "pre-PX", Y: 904, Z: "pre-PZ"}, Base: md.Base{E1: "pre-E1", E2: "pre-E2"}, Q: 903, R: "pre-R", L: []string{"pre-L"}, M: map[string]string{"pre": "M"}, G: 907, L2: []int64{908}, H: 909, HS: "pre-HS", HV: "pre-HV"}
}

// mkSD: a source of the destination's own type (methods with the same type on both sides)
func mkSD(set int) md.D {
	s := md.D{A: "a-src", B: 12, C: "c-src", D: "d-src", N: md.Nest{X: "nx-src", Y: 22, Z: "nz-src", In: md.Inner{W: "nw-src", V: 24}}, Base: md.Base{E1: "e1-src", E2: "e2-src"}, Q: 51, R: "r-src", L: []string{"l1-src", "l2-src", "l3-src"}, M: map[string]string{"k1": "m1-src", "k2": "m2-src"}, G: 61, L2: []int64{91, 92, 93}, H: 65, HS: "hs-src", HV: "hv-src"}
	if set == 0 {
		s.P = &md.Nest{X: "px-src", Y: 32, Z: "pz-src", In: md.Inner{W: "pw-src", V: 34}}
	}
	return s
}

func mkLD() conv.LD {
	return conv.LD{A: "pre-A", B: 901, C: "pre-C", D: "pre-D", N: md.Nest{X: "pre-NX", Y: 902, Z: "pre-NZ", In: md.Inner{W: "pre-NW", V: 905}}, P: &md.Nest{X: "pre-PX", Y: 904, Z: "pre-PZ"}, Base: md.Base{E1: "pre-E1", E2: "pre-E2"}, Q: 903, R: "pre-R", L: []string{"pre-L"}, M: map[string]string{"pre": "M"}, G: 907, L2: []int64{908}, H: 909, HS: "pre-HS", HV: "pre-HV"}
}

`)
	var names, aliased []string
	for _, mm := range meta.Methods {
		if mm.Sub {
			continue
		}
		names = append(names, mm.Name)
		mkS, mkD, dT := "mkS", "mkD", "md.D"
		if mm.Local {
			mkS, mkD, dT = "mkLS", "mkLD", "conv.LD"
		}
		if mm.Same {
			mkS = "mkSD"
		}
		// operand set 2: the caller passes the same object as destination and source
		aliasable := mm.Same && mm.Style == "arg" && mm.SrcPtr && mm.Recv == ""
		if aliasable {
			aliased = append(aliased, mm.Name)
		}
		fmt.Fprintf(&b, "func run%s(set int, failing []string) (res rt.Result) {\n", mm.Name)
		b.WriteString("\trt.Reset(failing)\n\tres.Failing = failing\n")
		b.WriteString("\tdefer func() {\n\t\tif p := recover(); p != nil {\n\t\t\tres.Panic = fmt.Sprint(p)\n\t\t}\n\t\tres.Trace = rt.Trace()\n\t}()\n")
		fmt.Fprintf(&b, "\ts := %s(set)\n\tres.Src0 = rt.Snap(s)\n\tres.SrcPtr = fmt.Sprintf(\"%%p\", &s)\n", mkS)
		var extraArgs []string
		for i, e := range mm.Extras {
			fmt.Fprintf(&b, "\te%d := %s\n\tres.Extra = append(res.Extra, rt.Snap(e%d))\n", i, extraValue(e, i), i)
			extraArgs = append(extraArgs, fmt.Sprintf("e%d", i))
		}
		srcArg := "s"
		if mm.SrcPtr {
			srcArg = "&s"
		}
		var args []string
		callee := "conv." + mm.Name
		if mm.Recv != "" {
			if mm.SrcPtr {
				callee = "(&s)." + mm.Name
			} else {
				callee = "s." + mm.Name
			}
		}
		if mm.Style == "arg" {
			fmt.Fprintf(&b, "\tdd := %s()\n", mkD)
			if mm.TwinOf != "" {
				// the twin copies onto an object already holding the sentinels
				b.WriteString("\trt.Sentinel(&dd)\n")
			}
			b.WriteString("\tres.Start = rt.Snap(dd)\n\tdp := &dd\n\tres.DstPtr = fmt.Sprintf(\"%p\", dp)\n")
			args = append(args, "dp")
			if aliasable {
				b.WriteString("\tsp := &s\n\tif set == 2 {\n\t\tsp = dp\n\t\tres.Src0 = rt.Snap(dd)\n\t\tres.SrcPtr = fmt.Sprintf(\"%p\", dp)\n\t}\n")
				srcArg = "sp"
			}
		} else {
			fmt.Fprintf(&b, "\tres.Start = rt.Snap(%s{})\n", dT)
		}
		if mm.Recv == "" {
			args = append(args, srcArg)
		}
		args = append(args, extraArgs...)
		call := fmt.Sprintf("%s(%s)", callee, strings.Join(args, ", "))
		b.WriteString("\tvar err error\n")
		if mm.Style == "arg" {
			if mm.RetErr {
				fmt.Fprintf(&b, "\terr = %s\n", call)
			} else {
				fmt.Fprintf(&b, "\t%s\n", call)
			}
			b.WriteString("\tres.Dst = rt.Snap(dd)\n")
		} else {
			if mm.RetErr {
				fmt.Fprintf(&b, "\td, e := %s\n\terr = e\n", call)
			} else {
				fmt.Fprintf(&b, "\td := %s\n", call)
			}
			if mm.DstPtr {
				b.WriteString("\tres.DstPtr = fmt.Sprintf(\"%p\", d)\n\tres.DstNil = d == nil\n")
			}
			b.WriteString("\tres.Dst = rt.Snap(d)\n")
		}
		if aliasable {
			b.WriteString("\tres.Err = rt.DescribeErr(err)\n\tres.Src1 = rt.Snap(*sp)\n\treturn\n}\n\n")
		} else {
			b.WriteString("\tres.Err = rt.DescribeErr(err)\n\tres.Src1 = rt.Snap(s)\n\treturn\n}\n\n")
		}
	}
	b.WriteString("func main() {\n\tvar reports []rt.FuncReport\n\tfor set := 0; set < 2; set++ {\n\t\tset := set\n")
	for i, n := range names {
		fmt.Fprintf(&b, "\t\treports = append(reports, rt.Explore(%q, set, func(f []string) rt.Result { return run%s(set, f) }, 8, 64, %d))\n", n, n, 1000+i)
	}
	b.WriteString("\t}\n")
	for i, n := range aliased {
		fmt.Fprintf(&b, "\treports = append(reports, rt.Explore(%q, 2, func(f []string) rt.Result { return run%s(2, f) }, 8, 64, %d))\n", n, n, 2000+i)
	}
	b.WriteString("\tif err := json.NewEncoder(os.Stdout).Encode(reports); err != nil {\n\t\tfmt.Fprintln(os.Stderr, err)\n\t\tos.Exit(3)\n\t}\n}\n")
	return b.String()
}
