// Package gensim generates "gensim" worlds: a converter package whose every
// user-supplied function (converters, error-returning getters, pre/post
// hooks) is a simulator-owned stub, plus a driver that runs each generated
// function under every failure plan. Used by C07 and C10.
package gensim

import (
	_ "embed"
	"fmt"
	"sort"
	"strings"

	"verifsim/internal/sim"
)

//go:embed tmpl/rt.go.txt
var rtSource string

// HookMeta describes one pre/post hook of a method.
type HookMeta struct {
	Name     string `json:"name"`     // as written in the notation (maybe pkg-qualified)
	Site     string `json:"site"`     // rt site id
	DstPtr   bool   `json:"dst_ptr"`  // the hook takes the destination by pointer
	SrcPtr   bool   `json:"src_ptr"`  // the hook takes the source by pointer
	RetErr   bool   `json:"ret_err"`  // the hook can fail
	Extras   bool   `json:"extras"`   // the hook declares the additional parameters
	Imported bool   `json:"imported"` // lives in package hooks
}

// MethodMeta is what the driver generator and the oracles know about a method.
type MethodMeta struct {
	Name    string    `json:"name"`
	Intf    int       `json:"intf"`
	Style   string    `json:"style"` // return | arg
	DstPtr  bool      `json:"dst_ptr"`
	SrcPtr  bool      `json:"src_ptr"`
	Recv    string    `json:"recv,omitempty"`
	RetErr  bool      `json:"ret_err"`
	Extras  []string  `json:"extras,omitempty"` // types of the additional arguments
	Local   bool      `json:"local"`            // local LS/LD types instead of m.S/m.D
	Sub     bool      `json:"sub,omitempty"`    // a helper method on the nested types (used as a converter by others)
	Same    bool      `json:"same,omitempty"`   // md.D on both sides: the caller may pass the same object twice
	Pre     *HookMeta `json:"pre,omitempty"`
	Post    *HookMeta `json:"post,omitempty"`
	TwinOf  string    `json:"twin_of,omitempty"` // this method is the hook-less twin of that one
	Twin    string    `json:"twin,omitempty"`
	Family  string    `json:"family"` // normal | noerr
	Notes   []string  `json:"notations"`
	Capable []string  `json:"capable_sites"` // error-capable stubs this method names (intended call sites)
}

// Meta travels with the world (as mod/gensim.meta.json) so that a replay needs nothing else.
type Meta struct {
	Kind    string       `json:"kind"` // normal | noerr | misfit:<what>
	Methods []MethodMeta `json:"methods"`
	DOrder  []string     `json:"d_field_order"`
	// Bystander: a misfit world with a second, clean converter interface after (1)
	// or before (2) the one holding the misfit
	Bystander int `json:"bystander,omitempty"`
	// GetterConv: an errshape world of the getter-into-plain-converter shape
	GetterConv bool `json:"getter_conv,omitempty"`
}

type fdef struct{ name, typ string }

var dFields = []fdef{{"T", "int"}, {"A", "string"}, {"B", "int"}, {"C", "string"}, {"D", "string"}, {"N", "Nest"}, {"P", "*Nest"}, {"Base", ""}, {"Q", "int"}, {"R", "string"}, {"L", "[]string"}, {"M", "map[string]string"}, {"G", "int"}, {"L2", "[]int64"}, {"H", "int"}, {"HS", "string"}, {"HV", "string"}}
var sFields = []fdef{{"T", "int"}, {"A", "int"}, {"B", "int"}, {"C", "string"}, {"D", "int"}, {"N", "Nest"}, {"P", "*Nest"}, {"Base", ""}, {"Q", "int"}, {"R", "string"}, {"L", "[]int"}, {"M", "map[string]int"}, {"L2", "[]int"}, {"PP", "*Nest"}}

func structText(name string, fs []fdef, pkgPrefix string) string {
	var b strings.Builder
	fmt.Fprintf(&b, "type %s struct {\n", name)
	for _, f := range fs {
		if f.typ == "" {
			fmt.Fprintf(&b, "\t%s%s\n", pkgPrefix, f.name) // embedded
			continue
		}
		t := f.typ
		switch strings.TrimPrefix(t, "*") {
		case "Nest":
			if strings.HasPrefix(t, "*") {
				t = "*" + pkgPrefix + t[1:]
			} else {
				t = pkgPrefix + t
			}
		}
		fmt.Fprintf(&b, "\t%s %s\n", f.name, t)
	}
	b.WriteString("}\n\n")
	return b.String()
}

type convStub struct {
	name    string
	in, out string
	capable bool
}

func stubText(s convStub, rtPkg string) string {
	zero := `""`
	val := fmt.Sprintf(`fmt.Sprintf("%s-%%v", v)`, s.name)
	if s.out == "int" {
		zero, val = "0", "v + 5000"
	}
	if s.out == "int64" {
		zero, val = "0", "int64(v) + 5000"
	}
	if s.out == s.in && s.out == "string" {
		val = fmt.Sprintf(`"%s-" + v`, s.name)
	}
	if s.capable {
		return fmt.Sprintf("func %s(v %s) (%s, error) {\n\tif err := %s.HitE(%q, \"conv\"); err != nil {\n\t\treturn %s, err\n\t}\n\treturn %s, nil\n}\n\n", s.name, s.in, s.out, rtPkg, s.name, zero, val)
	}
	return fmt.Sprintf("func %s(v %s) %s {\n\t%s.Hit(%q, \"conv\")\n\treturn %s\n}\n\n", s.name, s.in, s.out, rtPkg, s.name, val)
}

func getterText(recvType, name, site string, capable, ptrRecv bool, field string) string {
	rc := "s " + recvType
	if ptrRecv {
		rc = "s *" + recvType
	}
	if capable {
		return fmt.Sprintf("func (%s) %s() (int, error) {\n\tif err := rt.HitE(%q, \"getter\"); err != nil {\n\t\treturn 0, err\n\t}\n\treturn s.%s + 1000, nil\n}\n\n", rc, name, site, field)
	}
	return fmt.Sprintf("func (%s) %s() int {\n\trt.Hit(%q, \"getter\")\n\treturn s.%s + 2000\n}\n\n", rc, name, site, field)
}

func hookText(fn, site, kind string, h *HookMeta, dstT, srcT string, extras []string, pkgPrefixForM string) string {
	var ps []string
	d := dstT
	if h.DstPtr {
		d = "*" + dstT
	}
	s := srcT
	if h.SrcPtr {
		s = "*" + srcT
	}
	ps = append(ps, "dst "+d, "src "+s)
	args := "dst, src"
	if h.Extras {
		for i, e := range extras {
			ps = append(ps, fmt.Sprintf("a%d %s", i, e))
			args += fmt.Sprintf(", a%d", i)
		}
	}
	var b strings.Builder
	ret := ""
	if h.RetErr {
		ret = " error"
	}
	fmt.Fprintf(&b, "func %s(%s)%s {\n", fn, strings.Join(ps, ", "), ret)
	if h.RetErr {
		fmt.Fprintf(&b, "\tif err := rt.Hook(%q, %q, true, %s); err != nil {\n\t\treturn err\n\t}\n", site, kind, args)
	} else {
		fmt.Fprintf(&b, "\t_ = rt.Hook(%q, %q, false, %s)\n", site, kind, args)
	}
	if kind == "pre" && h.DstPtr {
		b.WriteString("\trt.Sentinel(dst)\n")
	}
	if h.RetErr {
		b.WriteString("\treturn nil\n")
	}
	b.WriteString("}\n\n")
	return b.String()
}

// MisfitKinds are the hook shapes that cannot fit the method (C10, last sentence).
var MisfitKinds = []string{"err-hook-on-noerr-method", "wrong-dst-type", "wrong-src-type", "extra-count-mismatch", "extra-type-mismatch", "non-error-result", "two-results", "one-param",
	"extra-ptr-for-value", "extra-value-for-ptr", "extra-count-too-many", "dst-double-pointer", "src-slice", "extra-slice-for-value",
	// one hook named by two methods: it fits the first (by name) and not the second
	"shared-hook-extra-count", "shared-hook-extra-type", "shared-hook-dst-type", "shared-hook-err-shape",
	// result shapes other than nothing / error
	"concrete-error-result", "slice-error-result", "bool-result", "error-first-of-two-results",
	// a hook that takes the additional arguments variadically (judged by behaviour if accepted)
	"variadic-extras"}

// Gen builds one gensim world. kind is "normal", "noerr" or "misfit".
func Gen(r *sim.Rng, kind string) (*sim.WorldSpec, *Meta) {
	// "misfit=<kind>,<n>" pins the misfit kind and the number of additional arguments
	// (and, as a third number, a bystander: 1 = a second, clean converter interface
	// declared after the one with the misfit and sorting after it, 2 = one declared
	// before it and sorting before it: a setup file is rejected as a whole)
	forcedMisfit, forcedExtras, bystander := "", -1, 0
	if strings.HasPrefix(kind, "misfit=") {
		parts := strings.Split(strings.TrimPrefix(kind, "misfit="), ",")
		forcedMisfit = parts[0]
		if len(parts) >= 2 {
			fmt.Sscanf(parts[1], "%d", &forcedExtras)
		}
		if len(parts) >= 3 {
			fmt.Sscanf(parts[2], "%d", &bystander)
		}
		kind = "misfit"
	}
	// "errshape=<n>": one method with an error result naming a converter or getter
	// whose second result is a concrete type implementing error (not the error
	// interface), followed by an ordinary fallible converter. Refused today; a
	// tree that accepts such functions is judged by behaviour like any world
	errShape := -1
	if strings.HasPrefix(kind, "errshape=") {
		fmt.Sscanf(strings.TrimPrefix(kind, "errshape="), "%d", &errShape)
		kind = "errshape"
	}
	// (errshape numbers 3.. are the "getterconv" shape: a converter WITHOUT error
	// result fed by a getter WITH one - ":conv pA GetB() A". The pinned tree emits
	// pA(src.GetB()), which does not compile (C01, no verdict here); a tree that
	// makes it compile has to check the getter's error before the converter runs)
	w := &sim.WorldSpec{Files: map[string]string{}, Setup: "mod/conv/setup.go"}
	meta := &Meta{Kind: kind}
	w.Files["mod/go.mod"] = "module example.com/g\n\ngo 1.19\n"
	w.Files["mod/rt/rt.go"] = rtSource

	// ---- packages ms (source side) and md (destination side): operand types
	// with simulator-owned getters. The embedded struct has the same name on
	// both sides, as convergen matches embedded members by name.
	dOrder := append([]fdef(nil), dFields...)
	sim.Shuffle(r, dOrder)
	// H, HS, HV (the destinations of the explicit source paths through PP and of the
	// variadic slot) stay neighbours: what a tree merges or hoists, it does for
	// adjacent assignments
	{
		var rest, blk []fdef
		for _, f := range dOrder {
			if f.name == "HS" || f.name == "HV" {
				blk = append(blk, f)
			} else {
				rest = append(rest, f)
			}
		}
		dOrder = dOrder[:0]
		for _, f := range rest {
			dOrder = append(dOrder, f)
			if f.name == "H" {
				dOrder = append(dOrder, blk...)
			}
		}
	}
	for _, f := range dOrder {
		meta.DOrder = append(meta.DOrder, f.name)
	}
	getBPtr := r.Bool()
	var sb strings.Builder
	sb.WriteString("package ms\n\nimport \"example.com/g/rt\"\n\n")
	sb.WriteString("type Inner struct {\n\tW int\n\tV int\n}\n\n")
	sb.WriteString("type Nest struct {\n\tX  int\n\tY  int\n\tZ  string\n\tIn Inner\n}\n\n")
	sb.WriteString("type Base struct {\n\tE1 int\n\tE2 string\n}\n\n")
	sb.WriteString(structText("S", sFields, ""))
	sb.WriteString("type Extra struct {\n\tV int\n}\n\n")
	sb.WriteString(getterText("Inner", "GetV", "Inner.GetV", true, false, "V"))
	sb.WriteString(getterText("Inner", "PlainV", "Inner.PlainV", false, false, "V"))
	sb.WriteString(getterText("Nest", "GetY", "Nest.GetY", true, false, "Y"))
	sb.WriteString(getterText("Nest", "PlainY", "Nest.PlainY", false, false, "Y"))
	// an error-returning method named like the destination field G: not a getter
	// in today's sense (getters have one result); dormant call site for :getter
	sb.WriteString(getterText("S", "G", "S.G", true, getBPtr, "Q"))
	sb.WriteString(getterText("S", "GetB", "S.GetB", true, getBPtr, "B"))
	sb.WriteString(getterText("S", "PlainB", "S.PlainB", false, getBPtr, "B"))
	if kind == "errshape" {
		sb.WriteString("func (s S) GetKE() (int, *rt.Injected) {\n\tif err := rt.HitE(\"S.GetKE\", \"getter\"); err != nil {\n\t\treturn 0, err.(*rt.Injected)\n\t}\n\treturn s.B + 1000, nil\n}\n\n")
	}
	sb.WriteString(getterText("Extra", "Get", "Extra.Get", true, false, "V"))
	sb.WriteString(getterText("Extra", "Plain", "Extra.Plain", false, false, "V"))
	w.Files["mod/ms/ms.go"] = sb.String()
	var db strings.Builder
	db.WriteString("package md\n\n")
	db.WriteString("type Inner struct {\n\tW string\n\tV int\n}\n\n")
	db.WriteString("type Nest struct {\n\tX  string\n\tY  int\n\tZ  string\n\tIn Inner\n}\n\n")
	db.WriteString("type Base struct {\n\tE1 string\n\tE2 string\n}\n\n")
	db.WriteString(structText("D", dOrder, ""))
	w.Files["mod/md/md.go"] = db.String()

	// ---- converter stubs (both flavours of every slot)
	stubs := []convStub{
		{"cA", "int", "string", true}, {"pA", "int", "string", false},
		{"cD", "int", "string", true}, {"pD", "int", "string", false},
		{"cNX", "int", "string", true}, {"pNX", "int", "string", false},
		{"cE1", "int", "string", true}, {"pE1", "int", "string", false},
		{"cW", "int", "string", true}, {"pW", "int", "string", false},
		{"cLE", "int", "string", true}, {"pLE", "int", "string", false},
		{"cLI", "int", "int", true}, {"pLI", "int", "int", false},
		{"cC", "string", "string", true}, {"pC", "string", "string", false},
		{"cR", "string", "string", true},
		{"cT64", "int", "int64", true},
	}
	ptrStubs := "func cP(v *ms.Nest) (*md.Nest, error) {\n\tif err := rt.HitE(\"cP\", \"conv\"); err != nil {\n\t\treturn nil, err\n\t}\n\tif v == nil {\n\t\treturn &md.Nest{X: \"cP-nil\"}, nil\n\t}\n\treturn &md.Nest{X: fmt.Sprint(\"cP-\", v.X), Y: v.Y, Z: v.Z}, nil\n}\n\n" +
		"func pV(xs ...any) string {\n\trt.Hit(\"pV\", \"conv\")\n\treturn fmt.Sprint(xs...)\n}\n\n" +
		"func cV(xs ...any) (string, error) {\n\tif err := rt.HitE(\"cV\", \"conv\"); err != nil {\n\t\treturn \"\", err\n\t}\n\treturn fmt.Sprint(xs...), nil\n}\n\n" +
		"func pP(v *ms.Nest) *md.Nest {\n\trt.Hit(\"pP\", \"conv\")\n\tif v == nil {\n\t\treturn &md.Nest{X: \"pP-nil\"}\n\t}\n\treturn &md.Nest{X: fmt.Sprint(\"pP-\", v.X), Y: v.Y, Z: v.Z}\n}\n\n"

	if kind == "errshape" {
		ptrStubs += "func cKE(v int) (string, *rt.Injected) {\n\tif err := rt.HitE(\"cKE\", \"conv\"); err != nil {\n\t\treturn \"\", err.(*rt.Injected)\n\t}\n\treturn fmt.Sprintf(\"cKE-%v\", v), nil\n}\n\n"
	}
	var setup strings.Builder
	setup.WriteString("//go:build convergen\n\npackage conv\n\nimport (\n\t\"fmt\"\n\n\t\"example.com/g/md\"\n\t\"example.com/g/ms\"\n\t\"example.com/g/rt\"\n")
	useHooksPkg := kind != "noerr" && kind != "errshape" && r.Chance(1, 2)
	if useHooksPkg {
		setup.WriteString("\t_ \"example.com/g/hooks\"\n")
	}
	setup.WriteString(")\n\n")
	setup.WriteString("var _ = fmt.Sprint\nvar _ = rt.Snap\n\n")
	// local operand types for receiver methods
	setup.WriteString(structText("LS", sFields, "ms."))
	setup.WriteString(structText("LD", dOrder, "md."))
	setup.WriteString(getterText("LS", "G", "LS.G", true, getBPtr, "Q"))
	setup.WriteString(getterText("LS", "GetB", "LS.GetB", true, getBPtr, "B"))
	setup.WriteString(getterText("LS", "PlainB", "LS.PlainB", false, getBPtr, "B"))

	var hooksPkg strings.Builder
	hooksPkg.WriteString("package hooks\n\nimport (\n\t\"fmt\"\n\n\t\"example.com/g/md\"\n\t\"example.com/g/ms\"\n\t\"example.com/g/rt\"\n)\n\nvar _ = rt.Snap\n\n")
	hooksPkg.WriteString(strings.ReplaceAll(stubText(convStub{"CD", "int", "string", true}, "rt"), `"CD"`, `"hooks.CD"`))
	hooksPkg.WriteString(strings.ReplaceAll(stubText(convStub{"PD", "int", "string", false}, "rt"), `"PD"`, `"hooks.PD"`))
	var localHooks strings.Builder

	pickCap := func(retErr bool, c, p string) (string, bool) {
		if kind == "noerr" {
			return c, true
		}
		if retErr && r.Chance(2, 3) {
			return c, true
		}
		return p, false
	}

	usedLocalHooks, usedImportedHooks := map[string]bool{}, map[string]bool{}
	nMethods := r.Range(2, 5)
	if kind == "misfit" {
		nMethods = 1
		if strings.HasPrefix(forcedMisfit, "shared-hook") {
			nMethods = 2
		}
	}
	if kind == "errshape" {
		nMethods = 1
	}
	type madeHook struct {
		h      *HookMeta
		which  string
		local  bool
		same   bool
		extras []string
	}
	var madeHooks []madeHook
	var methods []MethodMeta
	needSub := false
	for mi := 0; mi < nMethods; mi++ {
		mm := MethodMeta{Name: fmt.Sprintf("F%d", mi), Family: "normal"}
		if kind == "noerr" {
			mm.Family = "noerr"
		}
		mm.Style = "return"
		if r.Chance(2, 5) {
			mm.Style = "arg"
		}
		mm.DstPtr = r.Chance(2, 3)
		mm.SrcPtr = r.Chance(2, 3)
		mm.RetErr = kind != "noerr" && r.Chance(3, 4)
		if kind == "misfit" {
			mm.RetErr = r.Bool()
		}
		mm.Local = r.Chance(1, 4)
		if mm.Local && r.Chance(2, 3) {
			mm.Recv = "r"
		}
		// now and then both operands have the same type (a merge / clone method):
		// in arg style with the source by pointer the caller may then pass the very
		// same object twice
		if kind == "normal" && r.Chance(1, 5) {
			mm.Same, mm.Local, mm.Recv = true, false, ""
			if r.Chance(2, 3) {
				mm.Style, mm.SrcPtr = "arg", true
			}
		}
		switch r.Intn(5) {
		case 4:
			mm.Extras = []string{"*ms.Extra", "*int"}
		case 1:
			mm.Extras = []string{"ms.Extra"}
		case 2:
			mm.Extras = []string{"ms.Extra", "string"}
		case 3:
			if r.Bool() {
				mm.Extras = []string{"int", "string"}
			} else {
				mm.Extras = []string{"string", "string"}
			}
		}
		if forcedExtras >= 0 {
			mm.Extras = [][]string{nil, {"ms.Extra"}, {"int", "string"}}[forcedExtras%3]
		}
		if mm.Recv != "" && mm.Style == "return" {
			// convergen emits `func (r T) F(, arg0 X)` for receiver + additional
			// arguments in return style and then fails at formatting: a rejected
			// world explores nothing, so the combination is left out here (it is
			// C08's business, not applicable to this technique)
			mm.Extras = nil
		}
		var notes []string
		if mm.Style == "arg" {
			notes = append(notes, ":style arg")
		}
		if mm.Recv != "" {
			notes = append(notes, ":recv "+mm.Recv)
		}
		capable := map[string]bool{}
		slot := func(prob int) bool { return r.Chance(prob, 100) }
		if kind == "misfit" || mm.Same {
			slot = func(int) bool { return false }
		}
		if kind == "errshape" {
			slot = func(int) bool { return false }
			mm.RetErr, mm.Local, mm.Recv, mm.Same, mm.Extras = true, false, "", false, nil
			notes = removeNote(notes, ":recv r")
			if errShape >= 3 {
				// (fallible converters on several other fields, wherever A comes in the
				// destination's field order some of them run after it)
				notes = append(notes, ":conv pA GetB() A", ":conv cD D", ":conv cC C", ":conv cE1 Base.E1", ":conv cNX N.X")
				capable["S.GetB"], capable["cD"], capable["cC"], capable["cE1"], capable["cNX"] = true, true, true, true, true
				meta.GetterConv = true
			} else {
				switch errShape % 3 {
				case 0:
					notes = append(notes, ":conv cKE A")
				case 1:
					notes = append(notes, ":map GetKE() B")
				case 2:
					notes = append(notes, ":conv cKE N.X")
				}
				notes = append(notes, ":conv cD D")
				capable["cKE"], capable["S.GetKE"], capable["cD"] = errShape%3 != 1, errShape%3 == 1, true
			}
		}
		if mm.Same {
			// the slots whose stubs fit identical field types on both sides
			if r.Chance(1, 2) {
				f, c := pickCap(mm.RetErr, "cC", "pC")
				notes = append(notes, ":conv "+f+" C")
				capable[f] = c
			}
			if mm.RetErr && r.Chance(1, 3) {
				notes = append(notes, ":conv cR R")
				capable["cR"] = true
			}
		}
		if slot(55) {
			f, c := pickCap(mm.RetErr, "cA", "pA")
			notes = append(notes, ":conv "+f+" A")
			capable[f] = c
		}
		if slot(40) {
			f, c := pickCap(mm.RetErr, "cD", "pD")
			if useHooksPkg && r.Bool() {
				// a converter that lives in the blank-imported package
				f, c = pickCap(mm.RetErr, "hooks.CD", "hooks.PD")
			}
			notes = append(notes, ":conv "+f+" D")
			capable[f] = c
		}
		if slot(25) {
			// an ELEMENT converter named for a slice field: no match today (the converter
			// takes an element, the field is a slice); were it ever applied element-wise,
			// every call inside the loop is a call site of its own (occurrences #1, #2, ...)
			f, c := pickCap(mm.RetErr, "cLE", "pLE")
			notes = append(notes, ":conv "+f+" L")
			capable[f] = c
		}
		// dormant slots: 'no match' on today's tree, call sites the moment the feature exists
		if slot(15) {
			f, c := pickCap(mm.RetErr, "cLE", "pLE")
			notes = append(notes, ":conv "+f+" M") // a converter for the VALUES of a map field
			capable[f] = c
		}
		if slot(15) {
			// an element converter whose result needs a cast to the element type
			f, c := pickCap(mm.RetErr, "cLI", "pLI")
			notes = append(notes, ":typecast", ":conv "+f+" L2")
			capable[f] = c
		}
		if slot(15) {
			f, c := pickCap(mm.RetErr, "cNX", "pNX")
			notes = append(notes, ":conv "+f+" P.X") // a path through a pointer-to-struct field
			capable[f] = c
		}
		// explicit SOURCE paths through a pointer member (never nil in the driver's
		// operands), onto plain destination fields that nothing else assigns
		if slot(20) {
			g, c := pickCap(mm.RetErr, "PP.GetY()", "PP.PlainY()")
			notes = append(notes, ":map "+g+" H")
			capable["Nest."+strings.TrimSuffix(strings.TrimPrefix(g, "PP."), "()")] = c
		}
		if slot(20) || (hasNote(notes, " H") && slot(60)) {
			f, c := pickCap(mm.RetErr, "cNX", "pNX")
			notes = append(notes, ":conv "+f+" PP.X HS")
			capable[f] = c
		}
		if slot(15) {
			// a converter whose only parameter is variadic (...any), fed by a getter: no
			// match today; were it ever accepted, Go forwards BOTH results of the getter
			// into the call, so the getter's error has to be dealt with before it
			f, c := pickCap(mm.RetErr, "cV", "pV")
			g, gc := pickCap(mm.RetErr, "GetB()", "PlainB()")
			notes = append(notes, ":conv "+f+" "+g+" HV")
			capable[f] = c
			t := "S."
			if mm.Local {
				t = "LS."
			}
			capable[t+strings.TrimSuffix(g, "()")] = gc
		}
		if slot(15) {
			notes = append(notes, ":getter") // would pick up S.G() (int, error) for the field G
			if mm.RetErr || kind == "noerr" {
				t := "S.G"
				if mm.Local {
					t = "LS.G"
				}
				capable[t] = true
			}
		}
		if kind == "noerr" && slot(30) {
			// a fallible converter whose value needs :typecast to reach the field (int64
			// into int). Only in methods without error result: with one, the pinned tree
			// emits 'dst.T, err = int(cT64(src.T))', which does not compile (C01)
			if !hasNote(notes, ":typecast") {
				notes = append(notes, ":typecast")
			}
			notes = append(notes, ":conv cT64 T")
			capable["cT64"] = true
		}
		if slot(30) {
			f, c := pickCap(mm.RetErr, "cC", "pC")
			notes = append(notes, ":conv "+f+" C")
			capable[f] = c
		}
		nViaSub := !mm.Local && kind != "misfit" && (mm.RetErr || kind == "noerr") && slot(20)
		if nViaSub {
			needSub = true
			notes = append(notes, ":conv SubN N")
			capable["SubN"] = true
		} else {
			if slot(55) {
				f, c := pickCap(mm.RetErr, "cNX", "pNX")
				notes = append(notes, ":conv "+f+" N.X")
				capable[f] = c
			}
			if slot(35) {
				g, c := pickCap(mm.RetErr, "N.GetY()", "N.PlainY()")
				notes = append(notes, ":map "+g+" N.Y")
				capable["Nest."+strings.TrimSuffix(strings.TrimPrefix(g, "N."), "()")] = c
			}
			// two structs deep
			if slot(45) {
				f, c := pickCap(mm.RetErr, "cW", "pW")
				notes = append(notes, ":conv "+f+" N.In.W")
				capable[f] = c
			}
			if slot(25) {
				g, c := pickCap(mm.RetErr, "N.In.GetV()", "N.In.PlainV()")
				notes = append(notes, ":map "+g+" N.In.V")
				capable["Inner."+strings.TrimSuffix(strings.TrimPrefix(g, "N.In."), "()")] = c
			}
		}
		if slot(40) {
			f, c := pickCap(mm.RetErr, "cP", "pP")
			notes = append(notes, ":conv "+f+" P")
			capable[f] = c
		}
		if slot(45) {
			f, c := pickCap(mm.RetErr, "cE1", "pE1")
			notes = append(notes, ":conv "+f+" Base.E1")
			capable[f] = c
		}
		if slot(45) {
			g, c := pickCap(mm.RetErr, "GetB()", "PlainB()")
			notes = append(notes, ":map "+g+" B")
			t := "S."
			if mm.Local {
				t = "LS."
			}
			capable[t+strings.TrimSuffix(g, "()")] = c
		}
		if len(mm.Extras) > 0 && strings.TrimPrefix(mm.Extras[0], "*") == "ms.Extra" && slot(60) {
			g, c := pickCap(mm.RetErr, "$2.Get()", "$2.Plain()")
			notes = append(notes, ":map "+g+" Q")
			capable["Extra."+strings.TrimSuffix(strings.TrimPrefix(g, "$2."), "()")] = c
		}
		if slot(20) {
			notes = append(notes, ":conv cR R")
			capable["cR"] = true
			if !mm.RetErr && kind != "noerr" {
				// keep normal methods well-formed: a capable converter needs an error result
				notes = notes[:len(notes)-1]
				delete(capable, "cR")
			}
		}
		sim.Shuffle(r, notes)

		srcT, dstT := "ms.S", "md.D"
		if mm.Local {
			srcT, dstT = "LS", "LD"
		}
		if mm.Same {
			srcT = "md.D"
		}
		// hooks
		mkHook := func(which string) *HookMeta {
			// now and then a hook that an earlier method already uses is named
			// again (one function serving several methods), when it fits
			if r.Chance(1, 3) {
				for _, mh := range madeHooks {
					if mh.which == which && mh.local == mm.Local && mh.same == mm.Same && (!mh.h.RetErr || mm.RetErr) &&
						(!mh.h.Extras || strings.Join(mh.extras, ",") == strings.Join(mm.Extras, ",")) && (!mh.h.Imported || !mm.Local) {
						c := *mh.h
						return &c
					}
				}
			}
			h := &HookMeta{DstPtr: r.Chance(2, 3), SrcPtr: r.Bool(), RetErr: mm.RetErr && r.Chance(2, 3), Extras: len(mm.Extras) > 0 && r.Chance(2, 3)}
			h.Imported = useHooksPkg && !mm.Local && r.Chance(1, 2)
			fn := fmt.Sprintf("%s%s", map[string]string{"pre": "Pre", "post": "Post"}[which], mm.Name)
			// names are identifiers, not just letters and digits
			switch r.Intn(8) {
			case 0:
				fn = fmt.Sprintf("%s_%s", map[string]string{"pre": "Pre", "post": "Post"}[which], mm.Name)
			case 1:
				fn = fmt.Sprintf("%s%s_2nd", map[string]string{"pre": "Pre", "post": "Post"}[which], mm.Name)
			case 2:
				if !h.Imported {
					fn = fmt.Sprintf("_%s%s", map[string]string{"pre": "pre", "post": "post"}[which], mm.Name)
				}
			}
			// now and then a local and an imported hook share their base name
			mine, other := usedLocalHooks, usedImportedHooks
			if h.Imported {
				mine, other = usedImportedHooks, usedLocalHooks
			}
			var cands []string
			for n := range other {
				if !mine[n] && !(h.Imported && (n[0] == '_' || (n[0] >= 'a' && n[0] <= 'z'))) {
					cands = append(cands, n)
				}
			}
			sort.Strings(cands)
			if len(cands) > 0 && r.Chance(1, 2) {
				fn = sim.Pick(r, cands)
			}
			mine[fn] = true
			h.Name = fn
			if h.Imported {
				h.Name = "hooks." + fn
			}
			h.Site = h.Name
			text := hookText(fn, h.Site, which, h, dstT, srcT, mm.Extras, "")
			if h.Imported {
				hooksPkg.WriteString(text)
			} else {
				localHooks.WriteString(text)
			}
			madeHooks = append(madeHooks, madeHook{h, which, mm.Local, mm.Same, mm.Extras})
			return h
		}
		if kind != "noerr" && kind != "misfit" && kind != "errshape" {
			if r.Chance(1, 2) {
				mm.Pre = mkHook("pre")
				notes = append(notes, ":preprocess "+mm.Pre.Name)
				if mm.Pre.RetErr {
					capable[mm.Pre.Site] = true
				}
			}
			if r.Chance(1, 2) {
				mm.Post = mkHook("post")
				notes = append(notes, ":postprocess "+mm.Post.Name)
				if mm.Post.RetErr {
					capable[mm.Post.Site] = true
				}
			}
		}
		if kind == "misfit" {
			mk := sim.Pick(r, MisfitKinds)
			if forcedMisfit != "" {
				mk = forcedMisfit
			}
			meta.Kind = "misfit:" + mk
			which := sim.Pick(r, []string{"pre", "post"})
			if strings.HasPrefix(mk, "shared-hook") {
				// F0 fits the hook, F1 (which sorts after it) does not
				which = "post"
				mm.RetErr, mm.Recv = false, ""
				mm.Local = false
				dstT, srcT = "md.D", "ms.S"
				if mk == "shared-hook-err-shape" {
					// the hook returns an error: it fits F0, which has an error result, and not
					// F1, which has none - over the very same operand types
					mm.Extras = nil
					mm.RetErr = mi == 0
					if mi == 0 {
						fmt.Fprintf(&localHooks, "func BadShared(dst *md.D, src *ms.S) error {\n\treturn nil\n}\n\n")
					}
				} else if mi == 0 {
					mm.Extras = []string{"int", "string"}
					fmt.Fprintf(&localHooks, "func BadShared(dst *md.D, src *ms.S, a0 int, a1 string) {\n}\n\n")
				} else {
					switch mk {
					case "shared-hook-extra-count":
						mm.Extras = []string{"int"}
					case "shared-hook-extra-type":
						mm.Extras = []string{"string", "int"}
					case "shared-hook-dst-type":
						mm.Extras = []string{"int", "string"}
						mm.Local = true
					}
				}
				notes = append(notes, ":postprocess BadShared")
				mm.Notes = notes
				methods = append(methods, mm)
				continue
			}
			fn := "Bad" + mm.Name
			note := map[string]string{"pre": ":preprocess ", "post": ":postprocess "}[which] + fn
			d, s := "*"+dstT, "*"+srcT
			ex := ""
			for i, e := range mm.Extras {
				ex += fmt.Sprintf(", a%d %s", i, e)
			}
			ret, body := "", ""
			switch mk {
			case "err-hook-on-noerr-method":
				mm.RetErr = false
				ret, body = " error", "\treturn nil\n"
			case "wrong-dst-type":
				d = "*md.Nest"
			case "wrong-src-type":
				s = "*ms.Base"
			case "extra-count-mismatch":
				mm.Extras = []string{"int", "string"}
				ex = ", a0 int"
			case "extra-type-mismatch":
				mm.Extras = []string{"int", "string"}
				ex = ", a0 string, a1 int"
			case "extra-ptr-for-value":
				mm.Extras = []string{"int", "string"}
				ex = ", a0 *int, a1 string"
			case "extra-value-for-ptr":
				mm.Extras = []string{"*ms.Extra", "string"}
				ex = ", a0 ms.Extra, a1 string"
			case "extra-slice-for-value":
				mm.Extras = []string{"int", "string"}
				ex = ", a0 int, a1 []string"
			case "extra-count-too-many":
				mm.Extras = []string{"int"}
				ex = ", a0 int, a1 int"
			case "variadic-extras":
				// rejected today (count mismatch). Should the tool ever accept variadic
				// hooks, "fits" has to mean that the hook receives the method's additional
				// arguments, in order: the stub records what it got
				el := "string"
				mm.Extras = []string{"string", "string"}
				if r.Bool() {
					el, mm.Extras = "ms.Extra", []string{"ms.Extra"}
				}
				if mm.Recv != "" {
					notes = removeNote(notes, ":recv "+mm.Recv)
					mm.Recv = ""
				}
				ex = ", rest ..." + el
				body = fmt.Sprintf("\tvar xs []any\n\tfor _, x := range rest {\n\t\txs = append(xs, x)\n\t}\n\t_ = rt.Hook(%q, %q, false, dst, src, xs...)\n", fn, which)
			case "dst-double-pointer":
				d = "**" + dstT
			case "src-slice":
				s = "[]" + srcT
			case "concrete-error-result":
				// a concrete type that implements error is not the error interface: a nil
				// *T returned by a succeeding hook would become a non-nil error
				mm.RetErr = true
				ret, body = " *rt.Injected", "\treturn nil\n"
			case "slice-error-result":
				// a nilable non-pointer type implementing error
				mm.RetErr = true
				ret, body = " FieldErrs", "\treturn nil\n"
				fmt.Fprintf(&localHooks, "type FieldErrs []string\n\nfunc (e FieldErrs) Error() string { return \"field errors\" }\n\n")
			case "bool-result":
				ret, body = " bool", "\treturn true\n"
			case "error-first-of-two-results":
				mm.RetErr = true
				ret, body = " (error, int)", "\treturn nil, 0\n"
			case "non-error-result":
				ret, body = " int", "\treturn 0\n"
			case "two-results":
				ret, body = " (int, error)", "\treturn 0, nil\n"
			case "one-param":
				s, ex = "", ""
			}
			params := "dst " + d
			if s != "" {
				params += ", src " + s
			}
			fmt.Fprintf(&localHooks, "func %s(%s%s)%s {\n%s}\n\n", fn, params, ex, ret, body)
			notes = append(notes, note)
		}
		mm.Notes = notes
		for k, c := range capable {
			if c {
				mm.Capable = append(mm.Capable, k)
			}
		}
		sort.Strings(mm.Capable)
		methods = append(methods, mm)
		// hook-less twin for the sentinel differential (C10): the same method
		// without hooks, always in arg style, which the driver calls on a
		// destination it has filled with sentinels itself. "allocate, let the
		// by-pointer preprocess hook write sentinels everywhere, copy" must end
		// in exactly the same destination as "copy onto a sentinel-filled object".
		if mm.Pre != nil && mm.Pre.DstPtr {
			tw := mm
			tw.Name = mm.Name + "Twin"
			tw.TwinOf = mm.Name
			tw.Pre, tw.Post = nil, nil
			tw.Notes = nil
			for _, n := range mm.Notes {
				if !strings.HasPrefix(n, ":preprocess") && !strings.HasPrefix(n, ":postprocess") && n != ":style arg" {
					tw.Notes = append(tw.Notes, n)
				}
			}
			tw.Notes = append(tw.Notes, ":style arg")
			tw.Style = "arg"
			methods[len(methods)-1].Twin = tw.Name
			methods = append(methods, tw)
		}
	}
	if kind == "noerr" && r.Chance(1, 4) {
		// one error-returning hook named by two methods: G0 has an error result (the
		// hook fits), G1 - built after it - has none. Whatever the tree remembers
		// about the hook from G0 must not wire it into G1.
		which := sim.Pick(r, []string{"pre", "post"})
		h := &HookMeta{Name: "ErrHookShared", Site: "ErrHookShared", DstPtr: true, SrcPtr: true, RetErr: true}
		localHooks.WriteString(hookText("ErrHookShared", h.Site, which, h, "md.D", "ms.S", nil, ""))
		note := map[string]string{"pre": ":preprocess ", "post": ":postprocess "}[which] + h.Name
		g0 := MethodMeta{Name: "G0", Family: "normal", Style: "return", DstPtr: true, SrcPtr: true, RetErr: true, Notes: []string{note}, Capable: []string{h.Site}}
		if which == "pre" {
			g0.Pre = h
		} else {
			g0.Post = h
		}
		g1 := MethodMeta{Name: "G1", Family: "noerr", Style: "return", DstPtr: true, SrcPtr: true, Notes: []string{note}}
		if r.Bool() {
			g1.Style, g1.Notes = "arg", append(g1.Notes, ":style arg")
		}
		methods = append(methods, g0, g1)
		meta.Kind = "noerr" // (unchanged: the world is judged like every noerr world)
	}
	if needSub {
		sub := MethodMeta{Name: "SubN", Sub: true, Style: "return", RetErr: true, Family: "normal", Notes: []string{":conv cNX X"}, Capable: []string{"cNX"}}
		methods = append(methods, sub)
	}

	// ---- interfaces
	nIntf := 1
	if len(methods) > 2 && r.Chance(1, 3) {
		nIntf = 2
	}
	for i := range methods {
		methods[i].Intf = r.Intn(nIntf)
		if methods[i].TwinOf != "" {
			methods[i].Intf = methods[i-1].Intf
		}
	}
	has0 := false
	for _, mm := range methods {
		if mm.Intf == 0 {
			has0 = true
		}
	}
	if !has0 {
		for i := range methods {
			methods[i].Intf = 0
		}
	}
	// (the method carries a notation: on the pinned tree a :convergen-marked
	// interface whose only method has no comment at all fails at formatting,
	// "expected declaration, found Z0" - acceptance of well-formed input is C03)
	const bystanderMethod = "\t// :skip G\n\tZ0(*ms.S) *md.D\n"
	if kind == "misfit" && bystander > 0 {
		// ... and the interface with the misfit holds a method that is fine as well
		methods = append(methods, MethodMeta{Name: "Y0", Family: "normal", Style: "return", DstPtr: true, SrcPtr: true, Intf: 0})
	}
	if kind == "misfit" && bystander == 2 {
		setup.WriteString("// Another holds a method that is fine.\n// :convergen\ntype Another interface {\n" + bystanderMethod + "}\n\n")
	}
	for ii := 0; ii < nIntf; ii++ {
		empty := true
		for _, mm := range methods {
			if mm.Intf == ii {
				empty = false
			}
		}
		if empty && ii > 0 {
			continue // an empty converter interface is not a well-formed setup
		}
		if ii == 0 {
			setup.WriteString("type Convergen interface {\n")
		} else {
			setup.WriteString("// More holds further copy methods.\n// :convergen\ntype More interface {\n")
		}
		for _, mm := range methods {
			if mm.Intf != ii {
				continue
			}
			for _, n := range mm.Notes {
				setup.WriteString("\t// " + n + "\n")
			}
			srcT, dstT := "ms.S", "md.D"
			if mm.Local {
				srcT, dstT = "LS", "LD"
			}
			if mm.Sub {
				srcT, dstT = "ms.Nest", "md.Nest"
			}
			if mm.Same {
				srcT = "md.D"
			}
			sp, dp := "", ""
			if mm.SrcPtr {
				sp = "*"
			}
			if mm.DstPtr {
				dp = "*"
			}
			params := sp + srcT
			for _, e := range mm.Extras {
				params += ", " + e
			}
			res := dp + dstT
			if mm.RetErr {
				res = "(" + res + ", error)"
			}
			fmt.Fprintf(&setup, "\t%s(%s) %s\n", mm.Name, params, res)
		}
		setup.WriteString("}\n\n")
	}
	if kind == "misfit" && bystander == 1 {
		setup.WriteString("// Storage holds a method that is fine.\n// :convergen\ntype Storage interface {\n" + bystanderMethod + "}\n\n")
	}
	if kind == "misfit" && bystander > 0 {
		methods = append(methods, MethodMeta{Name: "Z0", Family: "normal", Style: "return", DstPtr: true, SrcPtr: true, Intf: 9, Notes: []string{":skip G"}})
		meta.Bystander = bystander
	}
	for _, s := range stubs {
		setup.WriteString(stubText(s, "rt"))
	}
	setup.WriteString(ptrStubs)
	setup.WriteString(localHooks.String())
	w.Files[w.Setup] = setup.String()
	if useHooksPkg {
		w.Files["mod/hooks/hooks.go"] = hooksPkg.String() + "var _ = ms.S{}\nvar _ = md.D{}\n"
	}
	meta.Methods = methods
	w.Files["mod/cmd/driver/main.go"] = driverSource(meta)
	w.Expect = "gensim:" + meta.Kind
	w.Name = "gensim-" + w.Digest()
	return w, meta
}

func removeNote(notes []string, n string) []string {
	var out []string
	for _, x := range notes {
		if x != n {
			out = append(out, x)
		}
	}
	return out
}

// hasNote: some notation ends in the given suffix (e.g. " H": the destination H)
func hasNote(notes []string, suffix string) bool {
	for _, n := range notes {
		if strings.HasSuffix(n, suffix) {
			return true
		}
	}
	return false
}
